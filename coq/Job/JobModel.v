(* Small-step model of the job task of watchexec-supervisor (job/task.rs start_job, job/priority.rs
   PriorityReceiver::recv + Timer, job/state.rs CommandState, job/job.rs send_controls).

   Nondeterminism is explicit: the order in which controls are sent, the passing of time, and the branch
   tokio's select! takes when several are ready are labels.  Child behaviour and injected faults are
   inputs (the `env` record).  A `variant` selects, per repaired defect, the code as pinned (false) or
   as repaired (true); theorems are stated for `fixed`, refutation witnesses for the pinned variants. *)
From Coq Require Import List NArith String Ascii Bool.
Import ListNotations.
Open Scope N_scope.

Definition flag := nat.
Definition time := N.

Inductive prio : Set := PNormal | PHigh | PUrgent.

Inductive ctrl : Set :=
  | CStart
  | CStop
  | CGracefulStop (sig : N) (grace : N)
  | CTryRestart
  | CTryGracefulRestart (sig : N) (grace : N)
  | CContinueTGR
  | CSignal (sig : N)
  | CDelete
  | CNextEnding
  | CSyncFunc (mark : N)
  | CAsyncFunc (mark : N) (dur : N)
  | CSetHook (h : N)
  | CUnsetHook.

(* raw wait status of a finished run: 0 = exited 0, s < 128 = killed by signal s *)
Inductive cstate : Set := Pending | Running (child : nat) | Finished (status : N).

Inductive reaction : Set := RIgnore | RDie (after : N).

(* behaviour of the i-th child and fault injection: all universally quantified in the theorems *)
Record env : Type := mkEnv {
  self_exit : nat -> option N;            (* exits by itself so long after its spawn *)
  react : nat -> N -> reaction;           (* reaction to a signal *)
  spawn_ok : nat -> bool;                 (* does the n-th spawn attempt succeed *)
  signal_ok : nat -> bool;                (* does the n-th signal call succeed *)
  kill_ok : nat -> bool }.                (* does the n-th kill call succeed *)

Record variant : Set := mkVar {
  v_biased : bool;          (* recv's parked select prefers timer > urgent > high > normal *)
  v_timer_flag : bool;      (* the process-end branch raises a pending graceful stop's flag *)
  v_clear_restart : bool;   (* ContinueTryGracefulRestart clears the restart-on-end marker *)
  v_wait_idle : bool;       (* NextEnding resolves at once whenever nothing is running *)
  v_restart_fail_flag : bool }. (* a failed respawn in the process-end branch still raises the restart flag *)

Definition fixed : variant := mkVar true true true true true.
Definition pinned : variant := mkVar false false false false false.

Inductive ob : Set :=
  | OHook (attempt : nat) (h : N) (cur : cstate) (prev : option cstate)
  | OSpawn (child : nat)
  | OSpawnFail (attempt : nat)
  | OSignal (child : nat) (sig : N)
  | OSignalFail (child : nat) (sig : N)
  | OKill (child : nat)
  | OKillFail (child : nat)
  | OReap (child : nat) (status : N)
  | OMark (m : N) (cur : cstate) (prev : option cstate)
  | OErr
  | ORaise (f : flag)
  | ODrop (child : nat)
  | OGone
  | OSent (p : prio) (f : flag)        (* bookkeeping: a control was accepted into a queue *)
  | OTake (p : prio) (f : flag).       (* bookkeeping: the task took a control out of a queue *)

Record child_info : Set := mkChild { c_spawned : time; c_exit_at : option time; c_status : N }.

Record world : Type := mkW {
  now : time;
  cs : cstate;
  prev : option cstate;
  timer : option (time * flag * bool);      (* deadline, done flag, is_restart *)
  on_end : list flag;
  on_end_restart : option flag;
  qu : list (ctrl * flag); qh : list (ctrl * flag); qn : list (ctrl * flag);
  parked : bool;                            (* the task waits inside recv's inner select *)
  busy_until : time;                        (* inside an AsyncFunc until then *)
  hook : option N;
  ended : bool;
  kids : list child_info;                   (* index = child number *)
  attempts : nat; nsignals : nat; nkills : nat;
  obs : list (time * ob) }.                 (* newest first *)

Definition init : world :=
  mkW 0 Pending None None [] None [] [] [] true 0 None false [] 0 0 0 [].

Definition emit (w : world) (t : time) (o : ob) : world :=
  mkW (now w) (cs w) (prev w) (timer w) (on_end w) (on_end_restart w) (qu w) (qh w) (qn w) (parked w)
      (busy_until w) (hook w) (ended w) (kids w) (attempts w) (nsignals w) (nkills w) ((t, o) :: obs w).
Definition out (w : world) (o : ob) : world := emit w (now w) o.

Definition set_cs (w : world) (c : cstate) : world :=
  mkW (now w) c (prev w) (timer w) (on_end w) (on_end_restart w) (qu w) (qh w) (qn w) (parked w)
      (busy_until w) (hook w) (ended w) (kids w) (attempts w) (nsignals w) (nkills w) (obs w).
Definition set_prev (w : world) (p : option cstate) : world :=
  mkW (now w) (cs w) p (timer w) (on_end w) (on_end_restart w) (qu w) (qh w) (qn w) (parked w)
      (busy_until w) (hook w) (ended w) (kids w) (attempts w) (nsignals w) (nkills w) (obs w).
Definition set_timer (w : world) (t : option (time * flag * bool)) : world :=
  mkW (now w) (cs w) (prev w) t (on_end w) (on_end_restart w) (qu w) (qh w) (qn w) (parked w)
      (busy_until w) (hook w) (ended w) (kids w) (attempts w) (nsignals w) (nkills w) (obs w).
Definition set_on_end (w : world) (l : list flag) : world :=
  mkW (now w) (cs w) (prev w) (timer w) l (on_end_restart w) (qu w) (qh w) (qn w) (parked w)
      (busy_until w) (hook w) (ended w) (kids w) (attempts w) (nsignals w) (nkills w) (obs w).
Definition set_oer (w : world) (f : option flag) : world :=
  mkW (now w) (cs w) (prev w) (timer w) (on_end w) f (qu w) (qh w) (qn w) (parked w)
      (busy_until w) (hook w) (ended w) (kids w) (attempts w) (nsignals w) (nkills w) (obs w).
Definition set_queues (w : world) (u h n : list (ctrl * flag)) : world :=
  mkW (now w) (cs w) (prev w) (timer w) (on_end w) (on_end_restart w) u h n (parked w)
      (busy_until w) (hook w) (ended w) (kids w) (attempts w) (nsignals w) (nkills w) (obs w).
Definition set_parked (w : world) (b : bool) : world :=
  mkW (now w) (cs w) (prev w) (timer w) (on_end w) (on_end_restart w) (qu w) (qh w) (qn w) b
      (busy_until w) (hook w) (ended w) (kids w) (attempts w) (nsignals w) (nkills w) (obs w).
Definition set_busy (w : world) (t : time) : world :=
  mkW (now w) (cs w) (prev w) (timer w) (on_end w) (on_end_restart w) (qu w) (qh w) (qn w) (parked w)
      t (hook w) (ended w) (kids w) (attempts w) (nsignals w) (nkills w) (obs w).
Definition set_hook (w : world) (h : option N) : world :=
  mkW (now w) (cs w) (prev w) (timer w) (on_end w) (on_end_restart w) (qu w) (qh w) (qn w) (parked w)
      (busy_until w) h (ended w) (kids w) (attempts w) (nsignals w) (nkills w) (obs w).
Definition set_ended (w : world) : world :=
  mkW (now w) (cs w) (prev w) (timer w) (on_end w) (on_end_restart w) (qu w) (qh w) (qn w) (parked w)
      (busy_until w) (hook w) true (kids w) (attempts w) (nsignals w) (nkills w) (obs w).
Definition set_kids (w : world) (k : list child_info) : world :=
  mkW (now w) (cs w) (prev w) (timer w) (on_end w) (on_end_restart w) (qu w) (qh w) (qn w) (parked w)
      (busy_until w) (hook w) (ended w) k (attempts w) (nsignals w) (nkills w) (obs w).
Definition set_now (w : world) (t : time) : world :=
  mkW t (cs w) (prev w) (timer w) (on_end w) (on_end_restart w) (qu w) (qh w) (qn w) (parked w)
      (busy_until w) (hook w) (ended w) (kids w) (attempts w) (nsignals w) (nkills w) (obs w).
Definition bump_attempts (w : world) : world :=
  mkW (now w) (cs w) (prev w) (timer w) (on_end w) (on_end_restart w) (qu w) (qh w) (qn w) (parked w)
      (busy_until w) (hook w) (ended w) (kids w) (S (attempts w)) (nsignals w) (nkills w) (obs w).
Definition bump_signals (w : world) : world :=
  mkW (now w) (cs w) (prev w) (timer w) (on_end w) (on_end_restart w) (qu w) (qh w) (qn w) (parked w)
      (busy_until w) (hook w) (ended w) (kids w) (attempts w) (S (nsignals w)) (nkills w) (obs w).
Definition bump_kills (w : world) : world :=
  mkW (now w) (cs w) (prev w) (timer w) (on_end w) (on_end_restart w) (qu w) (qh w) (qn w) (parked w)
      (busy_until w) (hook w) (ended w) (kids w) (attempts w) (nsignals w) (S (nkills w)) (obs w).

Definition raise (w : world) (f : flag) : world := out w (ORaise f).
Definition raise_all (w : world) (fs : list flag) : world := fold_left raise fs w.

Fixpoint update_nth {A} (n : nat) (f : A -> A) (l : list A) : list A :=
  match l, n with
  | [], _ => []
  | x :: r, O => f x :: r
  | x :: r, S n' => x :: update_nth n' f r
  end.

Definition child_exited (w : world) (c : nat) : bool :=
  match nth_error (kids w) c with
  | Some k => match c_exit_at k with Some t => t <=? now w | None => false end
  | None => false
  end.
Definition child_status (w : world) (c : nat) : N :=
  match nth_error (kids w) c with Some k => c_status k | None => 0 end.

(* CommandState::reset *)
Definition reset_cs (c : cstate) : cstate :=
  match c with Pending => Pending | Finished s => Finished s | Running _ => Finished 65535 (* Continued *) end.

Section Env.
  Variable E : env.
  Variable V : variant.

  (* spawn_hook.call + CommandState::spawn; returns (new world, spawned?) *)
  Definition do_spawn (w : world) : world * bool :=
    let a := attempts w in
    let w1 := match hook w with Some h => out w (OHook a h (cs w) (prev w)) | None => w end in
    let w2 := bump_attempts w1 in
    if spawn_ok E a then
      let c := List.length (kids w2) in
      let info := mkChild (now w2) (option_map (fun d => now w2 + d) (self_exit E c)) 0 in
      (out (set_cs (set_kids w2 (kids w2 ++ [info])) (Running c)) (OSpawn c), true)
    else (out (out w2 (OSpawnFail a)) OErr, false).

  (* signal_child: the child reacts by (possibly) scheduling its exit *)
  Definition do_signal (w : world) (c : nat) (sig : N) : world * bool :=
    let n := nsignals w in
    let w1 := bump_signals w in
    if signal_ok E n then
      let w2 := out w1 (OSignal c sig) in
      let w3 := if child_exited w2 c then w2 else
                match react E c sig with
                | RIgnore => w2
                | RDie d =>
                    set_kids w2 (update_nth c (fun k =>
                      match c_exit_at k with
                      | Some t => if t <=? now w2 + d then k else mkChild (c_spawned k) (Some (now w2 + d)) sig
                      | None => mkChild (c_spawned k) (Some (now w2 + d)) sig
                      end) (kids w2))
                end in
      (w3, true)
    else (out (out w1 (OSignalFail c sig)) OErr, false).

  (* child.kill().await; child.wait().await *)
  Definition do_kill_wait (w : world) (c : nat) : world * bool :=
    let n := nkills w in
    let w1 := bump_kills w in
    if kill_ok E n then
      let w2 := out w1 (OKill c) in
      let w3 := if child_exited w2 c then w2 else
                set_kids w2 (update_nth c (fun k => mkChild (c_spawned k) (Some (now w2)) 9) (kids w2)) in
      let st := child_status w3 c in
      (out (set_cs w3 (Finished st)) (OReap c st), true)
    else (out (out w1 (OKillFail c)) OErr, false).

  Definition end_flags (w : world) : world := set_on_end (raise_all w (on_end w)) [].

  (* previous_run = Some(command_state.reset()) *)
  Definition save_prev (w : world) : world := set_cs (set_prev w (Some (reset_cs (cs w)))) Pending.

  (* one control message; `done` is its flag.  The result's flag handling follows Loop::{Normally,Skip,Break}. *)
  Definition handle (w : world) (c : ctrl) (done : flag) : world :=
    match c with
    | CStart =>
        match cs w with
        | Running _ => raise w done
        | _ => raise (fst (do_spawn (save_prev w))) done
        end
    | CStop =>
        match cs w with
        | Running ch =>
            let (w1, ok) := do_kill_wait w ch in
            if ok then raise (end_flags w1) done else raise w1 done
        | _ => raise w done
        end
    | CGracefulStop sig grace =>
        match cs w with
        | Running ch =>
            let (w1, ok) := do_signal w ch sig in
            if ok then set_timer w1 (Some (now w1 + grace, done, false)) else raise w1 done
        | _ => raise w done
        end
    | CTryRestart =>
        match cs w with
        | Running ch =>
            let (w1, ok) := do_kill_wait w ch in
            if ok then raise (fst (do_spawn (end_flags (save_prev w1)))) done else raise w1 done
        | _ => raise w done
        end
    | CTryGracefulRestart sig grace =>
        match cs w with
        | Running ch =>
            let (w1, ok) := do_signal w ch sig in
            if ok then set_oer (set_timer w1 (Some (now w1 + grace, done, true))) (Some done) else raise w1 done
        | _ => raise w done
        end
    | CContinueTGR =>
        let step2 (w2 : world) :=
          raise (fst (do_spawn (save_prev w2))) done in
        let w := if v_clear_restart V then set_oer w None else w in
        match cs w with
        | Running ch =>
            let (w1, ok) := do_kill_wait w ch in
            if ok then step2 (end_flags w1) else raise w1 done
        | _ => step2 w
        end
    | CSignal sig =>
        match cs w with
        | Running ch => raise (fst (do_signal w ch sig)) done
        | _ => raise w done
        end
    | CDelete => set_ended (raise w done)
    | CNextEnding =>
        match cs w with
        | Finished _ => raise w done
        | Pending => if v_wait_idle V then raise w done else set_on_end w (on_end w ++ [done])
        | Running _ => set_on_end w (on_end w ++ [done])
        end
    | CSyncFunc m => raise (out w (OMark m (cs w) (prev w))) done
    | CAsyncFunc m dur =>
        let w1 := out w (OMark m (cs w) (prev w)) in
        set_busy (emit w1 (now w1 + dur) (ORaise done)) (now w1 + dur)
    | CSetHook h => raise (set_hook w (Some h)) done
    | CUnsetHook => raise (set_hook w None) done
    end.

  (* the process-end branch of the outer select! *)
  Definition handle_wait (w : world) : world :=
    match cs w with
    | Running ch =>
        let st := child_status w ch in
        let w1 := out (set_cs w (Finished st)) (OReap ch st) in
        let w2 := match timer w1 with
                  | Some (_, f, is_restart) =>
                      let w' := set_timer w1 None in
                      if andb (v_timer_flag V) (negb is_restart) then raise w' f else w'
                  | None => w1
                  end in
        let w3 := end_flags w2 in
        match on_end_restart w3 with
        | Some f =>
            let (w4, ok) := do_spawn (save_prev (set_oer w3 None)) in
            if ok then raise w4 f else if v_restart_fail_flag V then raise w4 f else w4
        | None => w3
        end
    | _ => w
    end.

  Inductive src : Set := SWait | STimer | SUrgent | SHigh | SNormal.

  Definition timer_due (w : world) : bool :=
    match timer w with Some (d, _, _) => d <=? now w | None => false end.
  Definition wait_ready (w : world) : bool :=
    match cs w with Running c => child_exited w c | _ => false end.
  Definition nonempty {A} (l : list A) : bool := match l with [] => false | _ => true end.

  (* what a fresh call of PriorityReceiver::recv returns without waiting *)
  Definition recv_fresh (w : world) : option src :=
    if timer_due w then Some STimer
    else if nonempty (qu w) then Some SUrgent
    else if nonempty (qh w) then Some SHigh
    else match timer w with
         | None => if nonempty (qn w) then Some SNormal else None
         | Some _ => None
         end.

  (* branches of the inner select! that are ready when the parked task is woken *)
  Definition recv_parked (w : world) : list src :=
    (if timer_due w then [STimer] else []) ++
    (if nonempty (qu w) then [SUrgent] else []) ++
    (if nonempty (qh w) then [SHigh] else []) ++
    (match timer w with None => if nonempty (qn w) then [SNormal] else [] | Some _ => [] end).

  (* the labels the task can take now *)
  Definition enabled (w : world) : list src :=
    if ended w then [] else
    if now w <? busy_until w then [] else
    (if wait_ready w then [SWait] else []) ++
    (if parked w then
       (if v_biased V then match recv_parked w with [] => [] | s :: _ => [s] end else recv_parked w)
     else match recv_fresh w with Some s => [s] | None => [] end).

  Definition pop {A} (l : list A) : option (A * list A) := match l with [] => None | x :: r => Some (x, r) end.

  (* after every turn of the loop the task starts a fresh recv; if nothing is ready it parks.  While it
     sleeps inside an AsyncFunc there is no recv at all: the fresh recv happens when the sleep is over. *)
  Definition settle_park (w : world) : world :=
    if ended w then w else
    if now w <? busy_until w then set_parked w false else
    set_parked w (match recv_fresh w with None => true | Some _ => false end).

  (* silent transition: a task that is back from an AsyncFunc and finds nothing to do parks *)
  Definition normalize (w : world) : world :=
    if ended w || (now w <? busy_until w) || parked w then w
    else match recv_fresh w with None => set_parked w true | Some _ => w end.

  Definition finish_end (w : world) : world :=
    if ended w then
      let w1 := match cs w with Running c => out w (ODrop c) | _ => w end in
      out w1 OGone
    else w.

  Definition task_step (w : world) (s : src) : world :=
    let w' :=
      match s with
      | SWait => handle_wait w
      | STimer =>
          match timer w with
          | Some (_, f, is_restart) =>
              handle (set_timer w None) (if is_restart then CContinueTGR else CStop) f
          | None => w
          end
      | SUrgent => match pop (qu w) with Some ((c, f), r) => handle (out (set_queues w r (qh w) (qn w)) (OTake PUrgent f)) c f | None => w end
      | SHigh => match pop (qh w) with Some ((c, f), r) => handle (out (set_queues w (qu w) r (qn w)) (OTake PHigh f)) c f | None => w end
      | SNormal => match pop (qn w) with Some ((c, f), r) => handle (out (set_queues w (qu w) (qh w) r) (OTake PNormal f)) c f | None => w end
      end in
    settle_park (finish_end w').

  (* Job::send_controls: nothing is enqueued once the job is gone (the ticket is born resolved) *)
  Definition send (w : world) (p : prio) (c : ctrl) (f : flag) : world :=
    if ended w then raise w f else
    match p with
    | PNormal => out (set_queues w (qu w) (qh w) (qn w ++ [(c, f)])) (OSent PNormal f)
    | PHigh => out (set_queues w (qu w) (qh w ++ [(c, f)]) (qn w)) (OSent PHigh f)
    | PUrgent => out (set_queues w (qu w ++ [(c, f)]) (qh w) (qn w)) (OSent PUrgent f)
    end.

  Inductive label : Set :=
    | LSend (p : prio) (c : ctrl) (f : flag)
    | LTask (s : src)
    | LAdvance (t : time).

  (* labels that are not enabled leave the world unchanged *)
  Definition step (w0 : world) (l : label) : world :=
    let w := normalize w0 in
    match l with
    | LSend p c f => send w p c f
    | LTask s => if existsb (fun x => match x, s with
                                      | SWait, SWait | STimer, STimer | SUrgent, SUrgent | SHigh, SHigh | SNormal, SNormal => true
                                      | _, _ => false end) (enabled w)
                 then task_step w s else w
    | LAdvance t => if now w <? t then set_now w t else w
    end.

  Definition run (ls : list label) : world := fold_left step ls init.
End Env.
