(* C07: no ticket is ever lost.  Every flag accepted by the job is, at every moment, already raised, or
   still held by the job (in a queue, by the grace timer, in the wait-for-end list, as the restart marker),
   or the job has ended (then the job's `gone` flag resolves every ticket).  Proved for the repaired
   variant over all API-shaped label sequences, environments and faults. *)
From Coq Require Import List Arith NArith String Ascii Bool Lia.
From WX Require Import Job.JobModel Job.JobExt Job.JobGrace Job.JobOrder.
Import ListNotations.
Open Scope N_scope.

Definition qflags (w : world) : list flag := map snd (qu w) ++ map snd (qh w) ++ map snd (qn w).
Definition tflag (w : world) : list flag := match timer w with Some (_, f, _) => [f] | None => [] end.
Definition oflag (w : world) : list flag := match on_end_restart w with Some f => [f] | None => [] end.
Definition held (w : world) : list flag := qflags w ++ tflag w ++ on_end w ++ oflag w.

Definition raisedP (w : world) (f : flag) : Prop := exists t, In (t, ORaise f) (obs w).
Definition okP (w : world) (f : flag) : Prop := raisedP w f \/ In f (held w) \/ ended w = true.

(* obs grows, held flags stay held or become raised, ended stays *)
Definition keeps (w w' : world) : Prop :=
  (exists ex, obs w' = ex ++ obs w) /\
  (forall f, In f (held w) -> In f (held w') \/ raisedP w' f) /\
  (ended w = true -> ended w' = true).

Lemma keeps_of w w' :
  (exists ex, obs w' = ex ++ obs w) ->
  (forall f, In f (held w) -> In f (held w') \/ raisedP w' f) ->
  (ended w = true -> ended w' = true) -> keeps w w'.
Proof. intros A B C. split; [exact A | split; [exact B | exact C]]. Qed.

Lemma keeps_refl w : keeps w w.
Proof. apply keeps_of; [exists []; reflexivity | intros f H; left; exact H | intro H; exact H]. Qed.

Lemma raisedP_ext w w' f : (exists ex, obs w' = ex ++ obs w) -> raisedP w f -> raisedP w' f.
Proof. intros (ex & O) (t & R). exists t. rewrite O. apply in_or_app. right. exact R. Qed.

Lemma keeps_trans a b c : keeps a b -> keeps b c -> keeps a c.
Proof.
  intros ((e1 & O1) & H1 & E1) ((e2 & O2) & H2 & E2). apply keeps_of.
  - exists (e2 ++ e1). rewrite O2, O1, app_assoc. reflexivity.
  - intros f Hf. destruct (H1 f Hf) as [A|A]; [apply H2; exact A | right; eapply raisedP_ext; [exists e2; exact O2 | exact A]].
  - intro X. apply E2, E1, X.
Qed.

Lemma keeps_okP w w' f : keeps w w' -> okP w f -> okP w' f.
Proof.
  intros (O & H & E) [R|[Hh|He]].
  - left. eapply raisedP_ext; eassumption.
  - destruct (H f Hh) as [A|A]; [right; left; exact A | left; exact A].
  - right. right. apply E, He.
Qed.

Lemma raisedP_raise w f : raisedP (raise w f) f.
Proof. exists (now w). left. reflexivity. Qed.

Lemma keeps_emit w t o : keeps w (emit w t o).
Proof. apply keeps_of; [exists [(t, o)]; reflexivity | intros f H; left; exact H | intro H; exact H]. Qed.
Lemma keeps_out w o : keeps w (out w o).
Proof. apply keeps_emit. Qed.
Lemma keeps_raise w f : keeps w (raise w f).
Proof. apply keeps_out. Qed.

Lemma keeps_same w w' :
  obs w' = obs w -> held w' = held w -> ended w' = ended w -> keeps w w'.
Proof.
  intros O H E. apply keeps_of; [exists []; exact O | intros f Hf; left; rewrite H; exact Hf | intro X; rewrite E; exact X].
Qed.
Ltac keeps_setter := apply keeps_same; reflexivity.

Lemma keeps_raise_all w fs : keeps w (raise_all w fs).
Proof.
  unfold raise_all. revert w. induction fs as [|f r IH]; intro w; simpl; [apply keeps_refl|].
  eapply keeps_trans; [apply keeps_raise | apply IH].
Qed.

Lemma raise_all_obs w fs : exists ex, obs (raise_all w fs) = ex ++ obs w.
Proof. destruct (ext_raise_all w fs) as (ex & O & _). exists ex. exact O. Qed.

Lemma raise_all_raises w fs f : In f fs -> raisedP (raise_all w fs) f.
Proof.
  unfold raise_all. revert w. induction fs as [|g r IH]; intros w H; [contradiction|]. simpl.
  destruct H as [->|H]; [|apply IH; exact H].
  destruct (raise_all_obs (raise w f) r) as (ex & O). unfold raise_all in O.
  exists (now w). rewrite O. apply in_or_app. right. left. reflexivity.
Qed.

Lemma raise_all_fields w fs :
  timer (raise_all w fs) = timer w /\ on_end (raise_all w fs) = on_end w /\
  on_end_restart (raise_all w fs) = on_end_restart w /\ ended (raise_all w fs) = ended w /\
  qu (raise_all w fs) = qu w /\ qh (raise_all w fs) = qh w /\ qn (raise_all w fs) = qn w /\ cs (raise_all w fs) = cs w.
Proof.
  unfold raise_all. revert w. induction fs as [|f r IH]; intro w; simpl; [repeat split; reflexivity|].
  destruct (IH (raise w f)) as (A & B & C & D & F & G & H & I). repeat split; assumption.
Qed.

(* end_flags raises every wait-for-end flag and empties the list; nothing else is touched *)
Lemma keeps_end_flags w : keeps w (end_flags w).
Proof.
  unfold end_flags. apply keeps_of.
  - destruct (raise_all_obs w (on_end w)) as (ex & O). exists ex. exact O.
  - intros f H. unfold held in *. destruct (raise_all_fields w (on_end w)) as (T & _ & R & _ & A & B & C & _).
    unfold qflags, tflag, oflag in *. cbn [qu qh qn timer on_end on_end_restart set_on_end].
    rewrite A, B, C, T, R. rewrite !in_app_iff in *.
    destruct H as [H|[H|[H|H]]]; [left; left; exact H | left; right; left; exact H | | left; right; right; right; exact H].
    right. destruct (raise_all_raises w (on_end w) f H) as (t & X). exists t. exact X.
  - destruct (raise_all_fields w (on_end w)) as (_ & _ & _ & E & _). intro X. cbn [ended set_on_end]. rewrite E. exact X.
Qed.

Lemma end_flags_fields w :
  timer (end_flags w) = timer w /\ on_end (end_flags w) = [] /\ on_end_restart (end_flags w) = on_end_restart w /\
  ended (end_flags w) = ended w /\ cs (end_flags w) = cs w /\
  qu (end_flags w) = qu w /\ qh (end_flags w) = qh w /\ qn (end_flags w) = qn w.
Proof.
  unfold end_flags. destruct (raise_all_fields w (on_end w)) as (A & B & C & D & F & G & H & I).
  repeat split; assumption.
Qed.

Section Env.
  Variable E : env.

  (* the helpers keep every holder as it is *)
  Lemma do_spawn_fields w :
    let w' := fst (do_spawn E w) in
    timer w' = timer w /\ on_end w' = on_end w /\ on_end_restart w' = on_end_restart w /\ ended w' = ended w /\
    qu w' = qu w /\ qh w' = qh w /\ qn w' = qn w.
  Proof.
    unfold do_spawn. destruct (hook w); destruct (spawn_ok E (attempts w)); cbn; repeat split; reflexivity.
  Qed.
  Lemma do_signal_fields w c s :
    let w' := fst (do_signal E w c s) in
    timer w' = timer w /\ on_end w' = on_end w /\ on_end_restart w' = on_end_restart w /\ ended w' = ended w /\
    qu w' = qu w /\ qh w' = qh w /\ qn w' = qn w /\ cs w' = cs w /\ now w' = now w.
  Proof.
    unfold do_signal. destruct (signal_ok E (nsignals w)); cbn zeta; cbn [fst]; [|repeat split; reflexivity].
    destruct (child_exited _ c); [repeat split; reflexivity|]. destruct (react E c s); repeat split; reflexivity.
  Qed.
  Lemma do_kill_wait_fields w c :
    let w' := fst (do_kill_wait E w c) in
    timer w' = timer w /\ on_end w' = on_end w /\ on_end_restart w' = on_end_restart w /\ ended w' = ended w /\
    qu w' = qu w /\ qh w' = qh w /\ qn w' = qn w.
  Proof.
    unfold do_kill_wait. destruct (kill_ok E (nkills w)); cbn zeta; cbn [fst]; [|repeat split; reflexivity].
    destruct (child_exited _ c); repeat split; reflexivity.
  Qed.

  Lemma held_eq w w' :
    timer w' = timer w -> on_end w' = on_end w -> on_end_restart w' = on_end_restart w ->
    qu w' = qu w -> qh w' = qh w -> qn w' = qn w -> held w' = held w.
  Proof. intros A B C D F G. unfold held, qflags, tflag, oflag. rewrite A, B, C, D, F, G. reflexivity. Qed.

  Lemma keeps_fields w w' :
    ext w w' -> timer w' = timer w -> on_end w' = on_end w -> on_end_restart w' = on_end_restart w ->
    ended w' = ended w -> keeps w w'.
  Proof.
    intros (ex & O & _ & A & B & C) T N R En. apply keeps_of.
    - exists ex. exact O.
    - intros f H. left. rewrite (held_eq w w' T N R A B C). exact H.
    - intro X. rewrite En. exact X.
  Qed.

  Lemma keeps_do_spawn w : keeps w (fst (do_spawn E w)).
  Proof. destruct (do_spawn_fields w) as (A & B & C & D & _). apply keeps_fields; [apply ext_do_spawn | assumption..]. Qed.
  Lemma keeps_do_signal w c s : keeps w (fst (do_signal E w c s)).
  Proof. destruct (do_signal_fields w c s) as (A & B & C & D & _). apply keeps_fields; [apply ext_do_signal | assumption..]. Qed.
  Lemma keeps_do_kill_wait w c : keeps w (fst (do_kill_wait E w c)).
  Proof. destruct (do_kill_wait_fields w c) as (A & B & C & D & _). apply keeps_fields; [apply ext_do_kill_wait | assumption..]. Qed.
  Lemma keeps_save_prev w : keeps w (save_prev w).
  Proof. keeps_setter. Qed.

  Ltac kchain :=
    repeat first
      [ apply keeps_refl
      | eapply keeps_trans; [|apply keeps_raise]
      | eapply keeps_trans; [|apply keeps_end_flags]
      | eapply keeps_trans; [|apply keeps_do_spawn]
      | eapply keeps_trans; [|apply keeps_save_prev] ].

  (* arming a holder that is currently free *)
  Lemma keeps_set_timer w d f r : timer w = None -> keeps w (set_timer w (Some (d, f, r))).
  Proof.
    intro T. apply keeps_of; [exists []; reflexivity | | intro X; exact X].
    intros g H. left. unfold held, qflags, tflag, oflag in *. cbn [qu qh qn timer on_end on_end_restart set_timer].
    rewrite T in H. cbn [app] in H. rewrite !in_app_iff in *. destruct H as [H|H]; [left; exact H | right; right; exact H].
  Qed.
  Lemma keeps_set_oer w f : on_end_restart w = None -> keeps w (set_oer w (Some f)).
  Proof.
    intro T. apply keeps_of; [exists []; reflexivity | | intro X; exact X].
    intros g H. left. unfold held, qflags, tflag, oflag in *. cbn [qu qh qn timer on_end on_end_restart set_oer].
    rewrite T in H. rewrite !in_app_iff in *. destruct H as [H|[H|[H|H]]]; [left; exact H | right; left; exact H | right; right; left; exact H | contradiction].
  Qed.
  Lemma keeps_push_on_end w f : keeps w (set_on_end w (on_end w ++ [f])).
  Proof.
    apply keeps_of; [exists []; reflexivity | | intro X; exact X].
    intros g H. left. unfold held, qflags, tflag, oflag in *. cbn [qu qh qn timer on_end on_end_restart set_on_end].
    rewrite !in_app_iff in *. tauto.
  Qed.

  (* handling a control never loses another flag (repaired variant).  Preconditions say how the control
     was obtained: a graceful control is only taken while no timer is armed (normal queue), and the
     internal continuation carries the restart marker's own flag. *)
  Lemma handle_keeps w c f :
    (match c with CGracefulStop _ _ | CTryGracefulRestart _ _ => timer w = None /\ on_end_restart w = None | _ => True end) ->
    (c = CContinueTGR -> forall g, on_end_restart w = Some g -> g = f) ->
    keeps w (handle E fixed w c f).
  Proof.
    intros Pre PreC. unfold handle. destruct c as [| |sig grace| |sig grace| |sig| | |m|m dur|h|].
    - destruct (cs w); kchain.
    - destruct (cs w) as [|ch|st]; [kchain | | kchain].
      pose proof (keeps_do_kill_wait w ch) as X. destruct (do_kill_wait E w ch) as [w1 ok]. cbn [fst] in X.
      destruct ok; (eapply keeps_trans; [exact X|]); kchain.
    - destruct Pre as [T _]. destruct (cs w) as [|ch|st]; [kchain | | kchain].
      pose proof (keeps_do_signal w ch sig) as X. destruct (do_signal_fields w ch sig) as (T1 & _).
      destruct (do_signal E w ch sig) as [w1 ok]. cbn [fst] in *.
      destruct ok; (eapply keeps_trans; [exact X|]); [apply keeps_set_timer; rewrite T1; exact T | kchain].
    - destruct (cs w) as [|ch|st]; [kchain | | kchain].
      pose proof (keeps_do_kill_wait w ch) as X. destruct (do_kill_wait E w ch) as [w1 ok]. cbn [fst] in X.
      destruct ok; (eapply keeps_trans; [exact X|]); kchain.
    - destruct Pre as [T R]. destruct (cs w) as [|ch|st]; [kchain | | kchain].
      pose proof (keeps_do_signal w ch sig) as X. destruct (do_signal_fields w ch sig) as (T1 & _ & R1 & _).
      destruct (do_signal E w ch sig) as [w1 ok]. cbn [fst] in *.
      destruct ok; (eapply keeps_trans; [exact X|]); [|kchain].
      eapply keeps_trans; [apply keeps_set_timer; rewrite T1; exact T|].
      apply keeps_set_oer. cbn [on_end_restart set_timer]. rewrite R1. exact R.
    - (* ContinueTGR: the marker is dropped; its flag is the control's own flag, raised at the end *)
      cbn [v_clear_restart fixed]. set (w0 := set_oer w None).
      assert (forall w2, keeps w0 w2 -> keeps w (raise w2 f)) as K0.
      { intros w2 ((ex & O) & Hh & En). apply keeps_of.
        - exists ((now w2, ORaise f) :: ex). cbn [obs raise out emit]. rewrite O. reflexivity.
        - intros g Hg.
          assert (In g (held w0) \/ on_end_restart w = Some g) as D.
          { unfold held, qflags, tflag, oflag in *. unfold w0. cbn [qu qh qn timer on_end on_end_restart set_oer].
            rewrite !in_app_iff in *.
            destruct Hg as [Hg|[Hg|[Hg|Hg]]]; [left; left; exact Hg | left; right; left; exact Hg | left; right; right; left; exact Hg|].
            right. destruct (on_end_restart w); [destruct Hg as [<-|[]]; reflexivity | contradiction]. }
          destruct D as [D|D].
          + destruct (Hh g D) as [A|(t & A)]; [left; exact A | right; exists t; right; exact A].
          + rewrite (PreC eq_refl g D). right. apply raisedP_raise.
        - intro X. cbn [ended raise out emit]. apply En. exact X. }
      destruct (cs w0) as [|ch|st].
      + apply K0. kchain.
      + pose proof (keeps_do_kill_wait w0 ch) as X. destruct (do_kill_wait E w0 ch) as [w1 ok]. cbn [fst] in X.
        destruct ok; apply K0; (eapply keeps_trans; [exact X|]); kchain.
      + apply K0. kchain.
    - destruct (cs w) as [|ch|st]; [kchain | | kchain].
      eapply keeps_trans; [apply keeps_do_signal | apply keeps_raise].
    - eapply keeps_trans; [apply keeps_raise|].
      apply keeps_of; [exists []; reflexivity | intros g Hg; left; exact Hg | intros _; reflexivity].
    - destruct (cs w); cbn [v_wait_idle fixed]; try apply keeps_raise; apply keeps_push_on_end.
    - eapply keeps_trans; [|apply keeps_raise]. apply keeps_out.
    - eapply keeps_trans; [|keeps_setter]. eapply keeps_trans; [|apply keeps_emit]. apply keeps_out.
    - eapply keeps_trans; [|apply keeps_raise]. keeps_setter.
    - eapply keeps_trans; [|apply keeps_raise]. keeps_setter.
  Qed.
End Env.

Section Env2.
  Variable E : env.

  Lemma held_raise w f : held (raise w f) = held w.
  Proof. reflexivity. Qed.

  (* the control's own flag is raised, or parked in a holder, when its arm is over *)
  Lemma handle_own w c f : raisedP (handle E fixed w c f) f \/ In f (held (handle E fixed w c f)).
  Proof.
    assert (forall x, raisedP (raise x f) f \/ In f (held (raise x f))) as R by (intro x; left; apply raisedP_raise).
    unfold handle. destruct c as [| |sig grace| |sig grace| |sig| | |m|m dur|h|]; cbn [v_clear_restart v_wait_idle fixed].
    - destruct (cs w); apply R.
    - destruct (cs w) as [|ch|st]; try apply R. destruct (do_kill_wait E w ch) as [w1 ok]. destruct ok; apply R.
    - destruct (cs w) as [|ch|st]; try apply R. destruct (do_signal E w ch sig) as [w1 ok]. destruct ok; [|apply R].
      right. unfold held, tflag. cbn [timer set_timer]. rewrite !in_app_iff. right. left. left. reflexivity.
    - destruct (cs w) as [|ch|st]; try apply R. destruct (do_kill_wait E w ch) as [w1 ok]. destruct ok; apply R.
    - destruct (cs w) as [|ch|st]; try apply R. destruct (do_signal E w ch sig) as [w1 ok]. destruct ok; [|apply R].
      right. unfold held, tflag. cbn [timer set_timer set_oer]. rewrite !in_app_iff. right. left. left. reflexivity.
    - destruct (cs (set_oer w None)) as [|ch|st]; try apply R.
      destruct (do_kill_wait E (set_oer w None) ch) as [w1 ok]. destruct ok; apply R.
    - destruct (cs w); apply R.
    - left. exists (now w). left. reflexivity.
    - destruct (cs w); try apply R. right. unfold held. cbn [on_end set_on_end]. rewrite !in_app_iff.
      right. right. left. right. left. reflexivity.
    - apply R.
    - left. exists (now w + dur). left. reflexivity.
    - apply R.
    - apply R.
  Qed.

  Lemma keeps_drop_oer_raise w w2 f :
    on_end_restart w = Some f -> keeps (set_oer w None) w2 -> keeps w (raise w2 f).
  Proof.
    intros Ho ((ex & O) & Hh & En). apply keeps_of.
    - exists ((now w2, ORaise f) :: ex). cbn [obs raise out emit]. rewrite O. reflexivity.
    - intros g Hg.
      assert (In g (held (set_oer w None)) \/ g = f) as D.
      { unfold held, qflags, tflag, oflag in *. cbn [qu qh qn timer on_end on_end_restart set_oer]. rewrite Ho in Hg.
        rewrite !in_app_iff in *.
        destruct Hg as [Hg|[Hg|[Hg|Hg]]]; [left; left; exact Hg | left; right; left; exact Hg | left; right; right; left; exact Hg|].
        right. destruct Hg as [<-|[]]. reflexivity. }
      destruct D as [D| ->].
      + destruct (Hh g D) as [A|(t & A)]; [left; exact A | right; exists t; right; exact A].
      + right. apply raisedP_raise.
    - intro X. cbn [ended raise out emit]. apply En. exact X.
  Qed.

  (* the process-end branch loses no flag, given that a restart timer's flag is also the restart marker *)
  Lemma handle_wait_keeps w :
    (forall d g, timer w = Some (d, g, true) -> on_end_restart w = Some g) ->
    keeps w (handle_wait E fixed w).
  Proof.
    intro Jt. unfold handle_wait. destruct (cs w) as [|ch|st]; [apply keeps_refl | | apply keeps_refl].
    set (w1 := out (set_cs w (Finished (child_status w ch))) (OReap ch (child_status w ch))).
    assert (keeps w w1) as K1 by (unfold w1; eapply keeps_trans; [|apply keeps_out]; apply keeps_same; reflexivity).
    assert (timer w1 = timer w /\ on_end_restart w1 = on_end_restart w) as [T1 R1] by (split; reflexivity).
    clearbody w1.
    set (w2 := match timer w1 with
               | Some (_, f, is_restart) => let w' := set_timer w1 None in if v_timer_flag fixed && negb is_restart then raise w' f else w'
               | None => w1 end).
    assert (keeps w1 w2 /\ on_end_restart w2 = on_end_restart w1) as [K2 R2].
    { unfold w2. destruct (timer w1) as [[[d g] ir]|] eqn:T; [|split; [apply keeps_refl | reflexivity]].
      cbn zeta. cbn [v_timer_flag fixed andb]. destruct ir; cbn [negb]; (split; [|reflexivity]).
      - (* restart timer: its flag stays held as the restart marker *)
        assert (on_end_restart w1 = Some g) as Ho by (rewrite R1; apply (Jt d); symmetry; exact T1).
        apply keeps_of; [exists []; reflexivity | | intro X; exact X].
        intros h Hh. left. unfold held, qflags, tflag, oflag in *. cbn [qu qh qn timer on_end on_end_restart set_timer].
        rewrite T in Hh. rewrite Ho in *. rewrite !in_app_iff in *.
        destruct Hh as [Hh|[Hh|[Hh|Hh]]]; [left; exact Hh | | right; right; left; exact Hh | right; right; right; exact Hh].
        destruct Hh as [<-|[]]. right. right. right. left. reflexivity.
      - (* stop timer: its flag is raised *)
        apply keeps_of; [exists [(now w1, ORaise g)]; reflexivity | | intro X; exact X].
        intros h Hh. unfold held, qflags, tflag, oflag in *. cbn [qu qh qn timer on_end on_end_restart set_timer raise out emit].
        rewrite T in Hh. rewrite !in_app_iff in *.
        destruct Hh as [Hh|[Hh|[Hh|Hh]]]; [left; left; exact Hh | | left; right; right; left; exact Hh | left; right; right; right; exact Hh].
        destruct Hh as [<-|[]]. right. exists (now w1). left. reflexivity. }
    clearbody w2.
    assert (keeps w (end_flags w2)) as K3 by (eapply keeps_trans; [exact K1|]; eapply keeps_trans; [exact K2 | apply keeps_end_flags]).
    destruct (end_flags_fields w2) as (_ & _ & R3 & _).
    set (w3 := end_flags w2) in *. clearbody w3.
    destruct (on_end_restart w3) as [f|] eqn:Ho; [|exact K3].
    eapply keeps_trans; [exact K3|].
    assert (keeps (set_oer w3 None) (fst (do_spawn E (save_prev (set_oer w3 None))))) as K4
      by (eapply keeps_trans; [apply keeps_save_prev | apply keeps_do_spawn]).
    destruct (do_spawn E (save_prev (set_oer w3 None))) as [w4 ok]. cbn [fst] in K4.
    cbn [v_restart_fail_flag fixed]. destruct ok; apply keeps_drop_oer_raise; assumption.
  Qed.
End Env2.

(* ---------- which controls the public API can put into which queue ---------- *)
Definition api_send (p : prio) (c : ctrl) : bool :=
  match p, c with
  | PNormal, CContinueTGR => false               (* internal control, never sent *)
  | PNormal, _ => true
  | PHigh, CNextEnding => true
  | PHigh, CDelete => true                      (* the last Job handle is dropped: the closed channel is noticed once the
                                                   urgent and high lanes are drained, before anything of the normal lane *)
  | PUrgent, CStop | PUrgent, CDelete => true
  | _, _ => false
  end.
Definition api_label (l : label) : bool :=
  match l with LSend p c _ => api_send p c | _ => true end.
Definition api_queue (p : prio) (q : list (ctrl * flag)) : Prop := forall c f, In (c, f) q -> api_send p c = true.
Definition AQ (w : world) : Prop := api_queue PUrgent (qu w) /\ api_queue PHigh (qh w) /\ api_queue PNormal (qn w).

(* the restart marker and the restart timer exist together and carry the same flag *)
Definition Jt (w : world) : Prop := forall d g, timer w = Some (d, g, true) -> on_end_restart w = Some g.
Definition Jo (w : world) : Prop := forall g, on_end_restart w = Some g -> exists d, timer w = Some (d, g, true).

Section Env3.
  Variable E : env.

  Lemma raise_all_same w fs : timer (raise_all w fs) = timer w /\ on_end_restart (raise_all w fs) = on_end_restart w.
  Proof. destruct (raise_all_fields w fs) as (A & _ & B & _). split; assumption. Qed.

  Lemma handle_timer_oer w c f :
    let w' := handle E fixed w c f in
    match c with
    | CGracefulStop _ g =>
        (timer w' = timer w /\ on_end_restart w' = on_end_restart w) \/
        (timer w' = Some (now w + g, f, false) /\ on_end_restart w' = on_end_restart w)
    | CTryGracefulRestart _ g =>
        (timer w' = timer w /\ on_end_restart w' = on_end_restart w) \/
        (timer w' = Some (now w + g, f, true) /\ on_end_restart w' = Some f)
    | CContinueTGR => timer w' = timer w /\ on_end_restart w' = None
    | _ => timer w' = timer w /\ on_end_restart w' = on_end_restart w
    end.
  Proof.
    cbn zeta. unfold handle. destruct c as [| |sig grace| |sig grace| |sig| | |m|m dur|h|]; cbn [v_clear_restart v_wait_idle fixed].
    - destruct (cs w); [| split; reflexivity |];
        destruct (do_spawn_fields E (save_prev w)) as (A & _ & B & _); cbn [timer on_end_restart raise out emit]; rewrite A, B; split; reflexivity.
    - destruct (cs w) as [|ch|st]; [split; reflexivity | | split; reflexivity].
      destruct (do_kill_wait_fields E w ch) as (A & _ & B & _). destruct (do_kill_wait E w ch) as [w1 ok]. cbn [fst] in *.
      destruct ok; cbn [timer on_end_restart raise out emit].
      + destruct (end_flags_fields w1) as (A1 & _ & B1 & _). rewrite A1, B1, A, B. split; reflexivity.
      + rewrite A, B. split; reflexivity.
    - destruct (cs w) as [|ch|st]; [left; split; reflexivity | | left; split; reflexivity].
      destruct (do_signal_fields E w ch sig) as (A & _ & B & _ & _ & _ & _ & _ & Nw). destruct (do_signal E w ch sig) as [w1 ok]. cbn [fst] in *.
      destruct ok; cbn [timer on_end_restart raise out emit set_timer]; [right | left]; rewrite ?A, ?B, ?Nw; split; reflexivity.
    - destruct (cs w) as [|ch|st]; [split; reflexivity | | split; reflexivity].
      destruct (do_kill_wait_fields E w ch) as (A & _ & B & _). destruct (do_kill_wait E w ch) as [w1 ok]. cbn [fst] in *.
      destruct ok; cbn [timer on_end_restart raise out emit].
      + destruct (do_spawn_fields E (end_flags (save_prev w1))) as (A2 & _ & B2 & _).
        destruct (end_flags_fields (save_prev w1)) as (A1 & _ & B1 & _).
        rewrite A2, B2, A1, B1. cbn [timer on_end_restart save_prev set_cs set_prev]. rewrite A, B. split; reflexivity.
      + rewrite A, B. split; reflexivity.
    - destruct (cs w) as [|ch|st]; [left; split; reflexivity | | left; split; reflexivity].
      destruct (do_signal_fields E w ch sig) as (A & _ & B & _ & _ & _ & _ & _ & Nw). destruct (do_signal E w ch sig) as [w1 ok]. cbn [fst] in *.
      destruct ok; cbn [timer on_end_restart raise out emit set_timer set_oer]; [right | left]; rewrite ?A, ?B, ?Nw; split; reflexivity.
    - set (w0 := set_oer w None).
      assert (timer w0 = timer w /\ on_end_restart w0 = None) as [T0 R0] by (split; reflexivity). clearbody w0.
      destruct (cs w0) as [|ch|st].
      + destruct (do_spawn_fields E (save_prev w0)) as (A & _ & B & _). cbn [timer on_end_restart raise out emit]. rewrite A, B. split; assumption.
      + destruct (do_kill_wait_fields E w0 ch) as (A & _ & B & _). destruct (do_kill_wait E w0 ch) as [w1 ok]. cbn [fst] in *.
        destruct ok; cbn [timer on_end_restart raise out emit].
        * destruct (do_spawn_fields E (save_prev (end_flags w1))) as (A2 & _ & B2 & _).
          destruct (end_flags_fields w1) as (A1 & _ & B1 & _).
          rewrite A2, B2. cbn [timer on_end_restart save_prev set_cs set_prev]. rewrite A1, B1, A, B. split; assumption.
        * rewrite A, B. split; assumption.
      + destruct (do_spawn_fields E (save_prev w0)) as (A & _ & B & _). cbn [timer on_end_restart raise out emit]. rewrite A, B. split; assumption.
    - destruct (cs w) as [|ch|st]; [split; reflexivity | | split; reflexivity].
      destruct (do_signal_fields E w ch sig) as (A & _ & B & _). cbn [timer on_end_restart raise out emit]. rewrite A, B. split; reflexivity.
    - split; reflexivity.
    - destruct (cs w); split; reflexivity.
    - split; reflexivity.
    - split; reflexivity.
    - split; reflexivity.
    - split; reflexivity.
  Qed.
End Env3.

Definition sentP (w : world) (f : flag) : Prop := exists t p, In (t, OSent p f) (obs w).
Definition Acc (w : world) : Prop := forall f, sentP w f -> okP w f.
Definition K (w : world) : Prop := AQ w /\ Jt w /\ Jo w /\ Acc w.

Lemma sentP_ext_inv w w' f : ext w w' -> sentP w' f -> sentP w f.
Proof.
  intros (ex & O & Qt & _) (t & p & H). rewrite O in H. apply in_app_or in H. destruct H as [H|H]; [|exists t, p; exact H].
  exfalso. rewrite forallb_forall in Qt. specialize (Qt _ H). discriminate.
Qed.

Lemma Acc_step w w' : ext w w' -> (forall f, okP w f -> okP w' f) -> Acc w -> Acc w'.
Proof. intros X Kp A f S. apply Kp, A. eapply sentP_ext_inv; eassumption. Qed.

Section Env4.
  Variable E : env.

  Lemma enabled_alive w s : In s (enabled fixed w) -> ended w = false.
  Proof. unfold enabled. destruct (ended w); [intros [] | reflexivity]. Qed.

  (* taking (c, f) out of a holder and running its arm: every flag that was accounted for still is *)
  Lemma pop_handle w w1 c f :
    ended w = false ->
    (exists o, obs w1 = (now w, o) :: obs w) \/ obs w1 = obs w ->
    ended w1 = ended w ->
    (forall h, In h (held w) -> h = f \/ In h (held w1)) ->
    (match c with CGracefulStop _ _ | CTryGracefulRestart _ _ => timer w1 = None /\ on_end_restart w1 = None | _ => True end) ->
    (c = CContinueTGR -> forall g, on_end_restart w1 = Some g -> g = f) ->
    forall h, okP w h -> okP (handle E fixed w1 c f) h.
  Proof.
    intros En O En1 Hh Pre PreC h [R|[H|X]]; [| |congruence].
    - eapply keeps_okP; [apply handle_keeps; assumption|]. left.
      destruct R as (t & R). exists t. destruct O as [(o & O)|O]; rewrite O; [right|]; exact R.
    - destruct (Hh h H) as [->|H1].
      + destruct (handle_own E w1 c f) as [A|A]; [left; exact A | right; left; exact A].
      + eapply keeps_okP; [apply handle_keeps; assumption|]. right. left. exact H1.
  Qed.

  Lemma K_normalize w : K w -> K (normalize w).
  Proof.
    intro H. unfold normalize. destruct (ended w || (now w <? busy_until w) || parked w); [exact H|].
    destruct (recv_fresh w); [exact H|]. exact H.
  Qed.

  Lemma api_queue_app p q c f : api_queue p q -> api_send p c = true -> api_queue p (q ++ [(c, f)]).
  Proof. intros A S c' f' H. apply in_app_or in H. destruct H as [H|[H|[]]]; [eapply A; exact H | inversion H; subst; exact S]. Qed.

  Lemma K_send w p c f : api_send p c = true -> K w -> K (send w p c f).
  Proof.
    intros S (Aq & T & O & A). unfold send. destruct (ended w) eqn:En.
    - split; [exact Aq|]. split; [exact T|]. split; [exact O|].
      eapply Acc_step; [apply ext_raise | intros g; apply keeps_okP, keeps_raise | exact A].
    - destruct Aq as (Au & Ah & An).
      assert (forall g, okP w g -> okP (send w p c f) g) as Kp.
      { intros g [R|[H|X]]; [| |congruence]; unfold send; rewrite En.
        - left. destruct R as (t & R). exists t. destruct p; right; exact R.
        - right. left. unfold held, qflags in *. destruct p; cbn [qu qh qn timer on_end on_end_restart out emit set_queues tflag oflag] in *;
            rewrite ?map_app, !in_app_iff in *; tauto. }
      unfold send in Kp. rewrite En in Kp.
      destruct p; (split; [repeat split; cbn [qu qh qn out emit set_queues]; try assumption; apply api_queue_app; assumption|]);
        (split; [exact T|]); (split; [exact O|]);
        intros g (t & q & Hs); cbn [obs out emit set_queues] in Hs;
        (destruct Hs as [Hs|Hs]; [inversion Hs; subst; right; left; unfold held, qflags; cbn [qu qh qn out emit set_queues]; rewrite ?map_app, !in_app_iff; cbn; tauto
                                 | apply Kp, A; exists t, q; exact Hs]).
  Qed.
End Env4.

Section Env5.
  Variable E : env.

  Lemma K_same w w' :
    ext w w' -> keeps w w' -> timer w' = timer w -> on_end_restart w' = on_end_restart w -> K w -> K w'.
  Proof.
    intros X Kp T R ((Au & Ah & An) & Jt_ & Jo_ & A). destruct X as (ex & O & Qt & Qu & Qh & Qn).
    split; [repeat split; [rewrite Qu | rewrite Qh | rewrite Qn]; assumption|].
    split; [intros d g H; rewrite R; apply (Jt_ d); rewrite <- T; exact H|].
    split; [intros g H; rewrite T; apply Jo_; rewrite <- R; exact H|].
    eapply Acc_step; [exists ex; split; [exact O | split; [exact Qt | split; [exact Qu | split; [exact Qh | exact Qn]]]] | intro f; apply keeps_okP; exact Kp | exact A].
  Qed.

  Lemma keeps_finish_end w : keeps w (finish_end w).
  Proof.
    unfold finish_end. destruct (ended w); [|apply keeps_refl].
    destruct (cs w); try apply keeps_out. eapply keeps_trans; apply keeps_out.
  Qed.
  Lemma keeps_settle_park w : keeps w (settle_park w).
  Proof. unfold settle_park. destruct (ended w); [apply keeps_refl|]. destruct (now w <? busy_until w); apply keeps_same; reflexivity. Qed.

  Lemma K_finish w : K w -> K (settle_park (finish_end w)).
  Proof.
    intro H. apply (K_same (finish_end w)); [apply ext_settle_park | apply keeps_settle_park | | |].
    - unfold settle_park. destruct (ended _); [reflexivity|]. destruct (_ <? _); reflexivity.
    - unfold settle_park. destruct (ended _); [reflexivity|]. destruct (_ <? _); reflexivity.
    - apply (K_same w); [apply ext_finish_end | apply keeps_finish_end | | | exact H];
        unfold finish_end; destruct (ended w); try reflexivity; destruct (cs w); reflexivity.
  Qed.

  Lemma handle_wait_fields w ch :
    cs w = Running ch -> timer (handle_wait E fixed w) = None /\ on_end_restart (handle_wait E fixed w) = None.
  Proof.
    intro C. unfold handle_wait. rewrite C.
    set (w1 := out (set_cs w (Finished (child_status w ch))) (OReap ch (child_status w ch))).
    set (w2 := match timer w1 with
               | Some (_, f, is_restart) => let w' := set_timer w1 None in if v_timer_flag fixed && negb is_restart then raise w' f else w'
               | None => w1 end).
    assert (timer w2 = None) as T2.
    { unfold w2. destruct (timer w1) as [[[d g] ir]|] eqn:T; [|exact T]. cbn zeta. destruct (v_timer_flag fixed && negb ir); reflexivity. }
    assert (on_end_restart w2 = on_end_restart w1) as R2.
    { unfold w2. destruct (timer w1) as [[[d g] ir]|]; [|reflexivity]. cbn zeta. destruct (v_timer_flag fixed && negb ir); reflexivity. }
    clearbody w2. destruct (end_flags_fields w2) as (T3 & _ & R3 & _). rewrite T2 in T3.
    set (w3 := end_flags w2) in *. clearbody w3.
    destruct (on_end_restart w3) as [f|] eqn:Ho; [|split; [exact T3 | exact Ho]].
    destruct (do_spawn_fields E (save_prev (set_oer w3 None))) as (A & _ & B & _).
    destruct (do_spawn E (save_prev (set_oer w3 None))) as [w4 ok]. cbn [fst] in *.
    cbn [v_restart_fail_flag fixed]. destruct ok; cbn [timer on_end_restart raise out emit]; rewrite A, B; split; try exact T3; reflexivity.
  Qed.

  Lemma api_urgent c : api_send PUrgent c = true -> c = CStop \/ c = CDelete.
  Proof. destruct c; cbn; intro H; try discriminate; auto. Qed.
  Lemma api_high c : api_send PHigh c = true -> c = CNextEnding \/ c = CDelete.
  Proof. destruct c; cbn; intro H; try discriminate; auto. Qed.
  Lemma api_normal c : api_send PNormal c = true -> c <> CContinueTGR.
  Proof. destruct c; cbn; intro H; try discriminate; intro X; discriminate. Qed.

  Lemma held_deq w p c f r h :
    queue p w = (c, f) :: r -> In h (held w) -> h = f \/ In h (held (deq w p f r)).
  Proof.
    intros Hq H. unfold held, qflags, tflag, oflag in *.
    destruct p; cbn [queue] in Hq; cbn [deq qu qh qn timer on_end on_end_restart out emit set_queues];
      rewrite Hq in H; cbn [map snd] in H; rewrite !in_app_iff in *; cbn [In] in H; intuition.
  Qed.

  (* the common part of taking a control out of a queue and running its arm *)
  Lemma K_queue_take w p c f r :
    K w -> ended w = false -> queue p w = (c, f) :: r -> (p = PNormal -> timer w = None) ->
    K (handle E fixed (deq w p f r) c f).
  Proof.
    intros (Aq & Jt_ & Jo_ & A) En Hq Hn.
    set (w1 := deq w p f r).
    assert (timer w1 = timer w /\ on_end_restart w1 = on_end_restart w /\ ended w1 = ended w /\ now w1 = now w) as (T1 & R1 & E1 & N1)
      by (unfold w1, deq; destruct p; repeat split; reflexivity).
    assert (api_send p c = true) as Sc.
    { destruct Aq as (Au & Ah & An). destruct p; cbn [queue] in Hq; [eapply An | eapply Ah | eapply Au]; rewrite Hq; left; reflexivity. }
    assert (AQ w1) as Aq1.
    { destruct Aq as (Au & Ah & An). unfold w1, deq.
      destruct p; cbn [queue] in Hq; repeat split; cbn [qu qh qn out emit set_queues]; try assumption;
        intros c' f' H'; [eapply An | eapply Ah | eapply Au]; rewrite Hq; right; exact H'. }
    assert (match c with CGracefulStop _ _ | CTryGracefulRestart _ _ => timer w1 = None /\ on_end_restart w1 = None | _ => True end) as Pre.
    { destruct c; try exact I; (destruct p; [|apply api_high in Sc; destruct Sc; discriminate | apply api_urgent in Sc; destruct Sc; discriminate]);
        rewrite T1, R1; (split; [apply Hn; reflexivity|]);
        destruct (on_end_restart w) as [g|] eqn:Ho; try reflexivity; destruct (Jo_ g Ho) as (d & Td); rewrite (Hn eq_refl) in Td; discriminate. }
    assert (c <> CContinueTGR) as NC.
    { destruct p; [apply api_normal; exact Sc | apply api_high in Sc; destruct Sc; subst; discriminate | apply api_urgent in Sc; destruct Sc; subst; discriminate]. }
    (* queues *)
    assert (ext w1 (handle E fixed w1 c f)) as X by apply ext_handle.
    split.
    { destruct X as (_ & _ & _ & Qu & Qh & Qn). destruct Aq1 as (Au & Ah & An).
      repeat split; [rewrite Qu | rewrite Qh | rewrite Qn]; assumption. }
    pose proof (handle_timer_oer E w1 c f) as F. cbn zeta in F.
    split; [|split].
    - (* Jt *)
      intros d g Ht. destruct c; try (destruct F as [Ft Fo]; rewrite Fo, R1; apply (Jt_ d); rewrite <- T1, <- Ft; exact Ht).
      + destruct F as [[Ft Fo]|[Ft Fo]]; [rewrite Fo, R1; apply (Jt_ d); rewrite <- T1, <- Ft; exact Ht|].
        rewrite Ft in Ht. discriminate.
      + destruct F as [[Ft Fo]|[Ft Fo]]; [rewrite Fo, R1; apply (Jt_ d); rewrite <- T1, <- Ft; exact Ht|].
        rewrite Ft in Ht. inversion Ht; subst. exact Fo.
      + contradiction.
    - (* Jo *)
      intros g Ho. destruct c; try (destruct F as [Ft Fo]; rewrite Ft, T1; apply Jo_; rewrite <- R1, <- Fo; exact Ho).
      + destruct F as [[Ft Fo]|[Ft Fo]]; [rewrite Ft, T1; apply Jo_; rewrite <- R1, <- Fo; exact Ho|].
        destruct Pre as [_ P2]. rewrite Fo, P2 in Ho. discriminate.
      + destruct F as [[Ft Fo]|[Ft Fo]]; [rewrite Ft, T1; apply Jo_; rewrite <- R1, <- Fo; exact Ho|].
        rewrite Fo in Ho. inversion Ho; subst. eexists. exact Ft.
      + contradiction.
    - (* Acc *)
      intros h Sh. assert (sentP w h) as Sw.
      { apply (sentP_ext_inv w1 _ h X) in Sh. destruct Sh as (t & q & Hs). unfold w1, deq in Hs.
        cbn [obs out emit] in Hs. destruct Hs as [Hs|Hs]; [discriminate|]. exists t, q.
        destruct p; exact Hs. }
      apply (pop_handle E w w1 c f En).
      + left. exists (OTake p f). unfold w1, deq. destruct p; reflexivity.
      + exact E1.
      + intros g Hg. apply (held_deq w p c f r g Hq Hg).
      + exact Pre.
      + intro C. contradiction.
      + apply A. exact Sw.
  Qed.
End Env5.

Section Env6.
  Variable E : env.

  Lemma K_task_step w s : K w -> In s (enabled fixed w) -> K (task_step E fixed w s).
  Proof.
    intros Hk Hen. pose proof (enabled_alive w s Hen) as En. unfold task_step. apply K_finish.
    destruct s.
    - (* process end *)
      destruct Hk as (Aq & Jt_ & Jo_ & A).
      destruct (cs w) as [|ch|st] eqn:C; try (unfold handle_wait; rewrite C; exact (conj Aq (conj Jt_ (conj Jo_ A)))).
      destruct (handle_wait_fields E w ch C) as [T R].
      pose proof (ext_handle_wait E fixed w) as X. pose proof (handle_wait_keeps E w Jt_) as Kp.
      split; [destruct X as (_ & _ & _ & Qu & Qh & Qn); destruct Aq as (Au & Ah & An); repeat split; [rewrite Qu | rewrite Qh | rewrite Qn]; assumption|].
      split; [intros d g H; rewrite T in H; discriminate|].
      split; [intros g H; rewrite R in H; discriminate|].
      eapply Acc_step; [exact X | intro f; apply keeps_okP; exact Kp | exact A].
    - (* grace timer expired *)
      destruct (timer w) as [[[d g] ir]|] eqn:T; [|exact Hk].
      destruct Hk as (Aq & Jt_ & Jo_ & A).
      set (w1 := set_timer w None). set (c := if ir then CContinueTGR else CStop).
      assert (on_end_restart w1 = on_end_restart w) as R1 by reflexivity.
      assert (on_end_restart w = if ir then Some g else None) as Ro.
      { destruct ir; [apply (Jt_ d); exact T|]. destruct (on_end_restart w) as [x|] eqn:Ho; [|reflexivity].
        destruct (Jo_ x Ho) as (d' & T'). rewrite T in T'. discriminate. }
      pose proof (ext_handle E fixed w1 c g) as X.
      pose proof (handle_timer_oer E w1 c g) as F. cbn zeta in F.
      assert (timer (handle E fixed w1 c g) = None /\ on_end_restart (handle E fixed w1 c g) = None) as [Tn Rn].
      { unfold c in *. destruct ir; destruct F as [Ft Fo]; rewrite Ft; split; try reflexivity; try exact Fo.
        rewrite Fo, R1, Ro. reflexivity. }
      split; [destruct X as (_ & _ & _ & Qu & Qh & Qn); destruct Aq as (Au & Ah & An); repeat split; [rewrite Qu | rewrite Qh | rewrite Qn]; assumption|].
      split; [intros d' g' H; rewrite Tn in H; discriminate|].
      split; [intros g' H; rewrite Rn in H; discriminate|].
      intros h Sh. apply (sentP_ext_inv w1 _ h X) in Sh.
      apply (pop_handle E w w1 c g En).
      + right. reflexivity.
      + reflexivity.
      + intros x Hx. unfold held, qflags, tflag, oflag in *. unfold w1. cbn [qu qh qn timer on_end on_end_restart set_timer].
        rewrite T in Hx. rewrite !in_app_iff in *. cbn [In] in Hx. intuition.
      + unfold c. destruct ir; exact I.
      + intros _ g' Hg'. rewrite R1, Ro in Hg'. destruct ir; [inversion Hg'; reflexivity | discriminate].
      + apply A. exact Sh.
    - destruct (qu w) as [|[c f] r] eqn:Hq; [exact Hk|]. cbn [pop].
      apply (K_queue_take E w PUrgent c f r Hk En Hq). intro X; discriminate.
    - destruct (qh w) as [|[c f] r] eqn:Hq; [exact Hk|]. cbn [pop].
      apply (K_queue_take E w PHigh c f r Hk En Hq). intro X; discriminate.
    - destruct (qn w) as [|[c f] r] eqn:Hq; [exact Hk|]. cbn [pop].
      apply (K_queue_take E w PNormal c f r Hk En Hq). intros _.
      destruct (timer w) eqn:T; [|reflexivity]. exfalso. apply (normal_held fixed w); [rewrite T; discriminate | exact Hen].
  Qed.

  Lemma K_step w l : api_label l = true -> K w -> K (step E fixed w l).
  Proof.
    intros Al Hk. unfold step. pose proof (K_normalize w Hk) as Hn. set (w' := normalize w) in *. clearbody w'.
    destruct l as [p c f | s | t].
    - apply K_send; assumption.
    - destruct (existsb _ (enabled fixed w')) eqn:Ex; [|exact Hn]. apply K_task_step; [exact Hn|].
      apply existsb_exists in Ex. destruct Ex as (x & Hx & Heq). destruct x, s; try discriminate; exact Hx.
    - destruct (now w' <? t); [|exact Hn]. apply (K_same w'); [apply ext_same; reflexivity | apply keeps_same; reflexivity | reflexivity | reflexivity | exact Hn].
  Qed.

  Lemma K_init : K init.
  Proof.
    split; [repeat split; intros c0 f0 []|]. split; [intros d g H; discriminate|]. split; [intros g H; discriminate|].
    intros f0 (t & p & []).
  Qed.

  (* C07, safety half: no accepted control's flag is ever lost *)
  Theorem no_ticket_lost ls :
    forallb api_label ls = true ->
    forall f, sentP (run E fixed ls) f -> okP (run E fixed ls) f.
  Proof.
    intro Al. assert (K (run E fixed ls)) as Hk.
    { unfold run. assert (forall w, K w -> K (fold_left (step E fixed) ls w)) as G.
      { induction ls as [|l r IH]; intros w H; simpl; [exact H|].
        simpl in Al. apply andb_true_iff in Al. destruct Al as [Al1 Al2]. apply IH; [exact Al2 | apply K_step; assumption]. }
      apply G, K_init. }
    destruct Hk as (_ & _ & _ & A). exact A.
  Qed.

  (* C06: the graceful restart marker exists only together with its armed timer *)
  Theorem restart_marker_invariant ls :
    forallb api_label ls = true -> Jt (run E fixed ls) /\ Jo (run E fixed ls).
  Proof.
    intro Al. assert (K (run E fixed ls)) as Hk.
    { unfold run. assert (forall w, K w -> K (fold_left (step E fixed) ls w)) as G.
      { induction ls as [|l r IH]; intros w H; simpl; [exact H|].
        simpl in Al. apply andb_true_iff in Al. destruct Al as [Al1 Al2]. apply IH; [exact Al2 | apply K_step; assumption]. }
      apply G, K_init. }
    destruct Hk as (_ & A & B & _). split; assumption.
  Qed.
End Env6.
