(* C06: graceful stop / restart: signal at once, no kill before the deadline, kill at the deadline,
   normal controls held back meanwhile, the restart happens exactly once. *)
From Coq Require Import List Arith NArith String Ascii Bool Lia.
From WX Require Import Job.JobModel Job.JobExt.
Import ListNotations.
Open Scope N_scope.

Section Env.
  Variable E : env.
  Variable V : variant.

  (* handling a graceful stop / restart of a running child whose signalling succeeds: the signal is the
     first thing that happens, at that very instant; nothing is killed, spawned or reaped; the grace timer
     is armed for now + grace and carries the control's flag, which is NOT raised yet *)
  Lemma graceful_signals_immediately w ch sig grace f (restart : bool) :
    cs w = Running ch -> signal_ok E (nsignals w) = true ->
    let w' := handle E V w (if restart then CTryGracefulRestart sig grace else CGracefulStop sig grace) f in
    obs w' = (now w, OSignal ch sig) :: obs w /\
    timer w' = Some (now w + grace, f, restart) /\
    cs w' = Running ch /\
    on_end_restart w' = (if restart then Some f else on_end_restart w).
  Proof.
    intros C S. destruct restart; cbn [handle]; rewrite C; unfold do_signal; rewrite S;
      destruct (child_exited _ ch); try destruct (react E ch sig); cbn; rewrite ?C; repeat split; reflexivity.
  Qed.

  (* when nothing is running the graceful controls do nothing and complete at once *)
  Lemma graceful_idle_noop w sig grace f (restart : bool) :
    (forall c, cs w <> Running c) ->
    handle E V w (if restart then CTryGracefulRestart sig grace else CGracefulStop sig grace) f = raise w f.
  Proof. intro H. destruct restart; cbn [handle]; destruct (cs w) eqn:C; try reflexivity; exfalso; eapply H; reflexivity. Qed.

  (* the forced stop only becomes possible once the deadline has been reached *)
  Lemma no_early_kill w :
    In STimer (enabled V w) -> exists d f r, timer w = Some (d, f, r) /\ d <= now w.
  Proof.
    unfold enabled. destruct (ended w); [intros []|]. destruct (now w <? busy_until w); [intros []|].
    rewrite in_app_iff. intros [H|H].
    - destruct (wait_ready w); [destruct H as [H|[]]; discriminate | contradiction].
    - assert (timer_due w = true) as D.
      { destruct (parked w).
        - assert (In STimer (recv_parked w)) as P.
          { destruct (v_biased V); [|exact H]. destruct (recv_parked w) as [|x r]; [contradiction|].
            destruct H as [<-|[]]. left. reflexivity. }
          unfold recv_parked in P. destruct (timer_due w); [reflexivity|].
          cbn [app] in P. rewrite !in_app_iff in P.
          destruct P as [P|[P|P]].
          + destruct (nonempty (qu w)); [destruct P as [P|[]]; discriminate | contradiction].
          + destruct (nonempty (qh w)); [destruct P as [P|[]]; discriminate | contradiction].
          + destruct (timer w); [contradiction|]. destruct (nonempty (qn w)); [destruct P as [P|[]]; discriminate | contradiction].
        - unfold recv_fresh in H. destruct (timer_due w); [reflexivity|].
          destruct (nonempty (qu w)); [destruct H as [H|[]]; discriminate|].
          destruct (nonempty (qh w)); [destruct H as [H|[]]; discriminate|].
          destruct (timer w); [contradiction|]. destruct (nonempty (qn w)); [destruct H as [H|[]]; discriminate | contradiction]. }
      unfold timer_due in D. destruct (timer w) as [[[d f] r]|]; [|discriminate].
      exists d, f, r. split; [reflexivity | apply N.leb_le; exact D].
  Qed.

  (* while a grace timer is armed no normal-priority control is taken *)
  Lemma normal_held w : timer w <> None -> ~ In SNormal (enabled V w).
  Proof.
    intros T H. unfold enabled in H. destruct (ended w); [exact H|]. destruct (now w <? busy_until w); [exact H|].
    rewrite in_app_iff in H. destruct H as [H|H].
    - destruct (wait_ready w); [destruct H as [H|[]]; discriminate | exact H].
    - destruct (parked w).
      + assert (In SNormal (recv_parked w)) as P.
        { destruct (v_biased V); [|exact H]. destruct (recv_parked w) as [|x r]; [contradiction|].
          destruct H as [<-|[]]. left. reflexivity. }
        unfold recv_parked in P. rewrite !in_app_iff in P. destruct P as [P|[P|[P|P]]].
        * destruct (timer_due w); [destruct P as [P|[]]; discriminate | contradiction].
        * destruct (nonempty (qu w)); [destruct P as [P|[]]; discriminate | contradiction].
        * destruct (nonempty (qh w)); [destruct P as [P|[]]; discriminate | contradiction].
        * destruct (timer w); [contradiction | apply T; reflexivity].
      + unfold recv_fresh in H. destruct (timer_due w); [destruct H as [H|[]]; discriminate|].
        destruct (nonempty (qu w)); [destruct H as [H|[]]; discriminate|].
        destruct (nonempty (qh w)); [destruct H as [H|[]]; discriminate|].
        destruct (timer w); [contradiction | apply T; reflexivity].
  Qed.
End Env.

(* at the deadline the forced stop is enabled at once (repaired code), whatever else is queued; under
   maximal progress it (or the process-end branch, if the child exited at that very instant) is taken *)
Lemma kill_at_expiry w d f r :
  timer w = Some (d, f, r) -> d <= now w -> ended w = false -> busy_until w <= now w ->
  In STimer (enabled fixed w).
Proof.
  intros T D En B. unfold enabled. rewrite En.
  assert (now w <? busy_until w = false) as -> by (apply N.ltb_ge; exact B).
  assert (timer_due w = true) as TD by (unfold timer_due; rewrite T; apply N.leb_le; exact D).
  apply in_or_app. right. cbn [v_biased fixed]. destruct (parked w).
  - unfold recv_parked. rewrite TD. left. reflexivity.
  - unfold recv_fresh. rewrite TD. left. reflexivity.
Qed.

(* what the forced stop does: kill and reap the child at that instant, then complete the stop *)
Lemma do_kill_wait_ok E w ch :
  kill_ok E (nkills w) = true ->
  exists st, obs (fst (do_kill_wait E w ch)) = (now w, OReap ch st) :: (now w, OKill ch) :: obs w /\
             cs (fst (do_kill_wait E w ch)) = Finished st /\ snd (do_kill_wait E w ch) = true.
Proof.
  intro K. unfold do_kill_wait. rewrite K. cbn zeta.
  destruct (child_exited (out (bump_kills w) (OKill ch)) ch); eexists; repeat split; reflexivity.
Qed.

Lemma forced_stop_kills E V w ch d f :
  timer w = Some (d, f, false) -> cs w = Running ch -> kill_ok E (nkills w) = true ->
  task_step E V w STimer =
  settle_park (finish_end (raise (end_flags (fst (do_kill_wait E (set_timer w None) ch))) f)).
Proof.
  intros T C K. unfold task_step. rewrite T. cbn [handle]. change (cs (set_timer w None)) with (cs w). rewrite C.
  destruct (do_kill_wait_ok E (set_timer w None) ch K) as (st & _ & _ & Ok).
  destruct (do_kill_wait E (set_timer w None) ch) as [w1 ok]. cbn [snd fst] in *. rewrite Ok. reflexivity.
Qed.
