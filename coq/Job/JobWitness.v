(* Regression witnesses: on the pinned variants of the model (the code before each repair) the C06/C07/C09
   statements fail; on the repaired variant the same histories satisfy them.  All by computation. *)
From Coq Require Import List Arith NArith String Ascii Bool Lia.
From WX Require Import Job.JobModel Job.JobTickets.
Import ListNotations.
Open Scope N_scope.

Definition raisedb (w : world) (f : flag) : bool :=
  existsb (fun e => match snd e with ORaise g => Nat.eqb f g | _ => false end) (obs w).
Definition okb (w : world) (f : flag) : bool :=
  raisedb w f || existsb (Nat.eqb f) (held w) || ended w.

Lemma okP_okb w f : okP w f -> okb w f = true.
Proof.
  unfold okb. intros [(t & R)|[H|X]].
  - assert (raisedb w f = true) as ->; [|reflexivity]. unfold raisedb. apply existsb_exists.
    exists (t, ORaise f). split; [exact R | apply Nat.eqb_refl].
  - assert (existsb (Nat.eqb f) (held w) = true) as ->; [|rewrite orb_true_r; reflexivity].
    apply existsb_exists. exists f. split; [exact H | apply Nat.eqb_refl].
  - rewrite X. apply orb_true_r.
Qed.

Definition spawns (w : world) : nat :=
  List.length (filter (fun e => match snd e with OSpawn _ => true | _ => false end) (obs w)).

(* a child that dies 5 ms after SIGTERM, spawn attempt number 1 fails in env_fail *)
Definition env_term : env := mkEnv (fun _ => None) (fun _ s => if s =? 15 then RDie 5 else RIgnore) (fun _ => true) (fun _ => true) (fun _ => true).
Definition env_fail : env := mkEnv (fun _ => None) (fun _ s => if s =? 15 then RDie 5 else RIgnore) (fun n => negb (Nat.eqb n 1)) (fun _ => true) (fun _ => true).
(* first child ignores everything; the second exits by itself after 100 ms *)
Definition env_ign : env := mkEnv (fun c => if Nat.eqb c 1 then Some 100 else None) (fun _ _ => RIgnore) (fun _ => true) (fun _ => true) (fun _ => true).

Definition v_only_timer_flag_pinned := mkVar true false true true true.
Definition v_only_clear_restart_pinned := mkVar true true false true true.
Definition v_only_wait_idle_pinned := mkVar true true true false true.
Definition v_only_restart_fail_pinned := mkVar true true true true false.

(* graceful stop, child exits inside the grace period *)
Definition h_graceful : list label :=
  [LSend PNormal CStart 1%nat; LTask SNormal; LAdvance 10; LSend PNormal (CGracefulStop 15 50) 3%nat; LTask SNormal;
   LAdvance 15; LTask SWait].

Lemma ticket_lost_graceful_stop_refuted :
  ~ okP (run env_term v_only_timer_flag_pinned h_graceful) 3%nat /\ raisedb (run env_term fixed h_graceful) 3%nat = true.
Proof. split; [intro H; apply okP_okb in H; vm_compute in H; discriminate | vm_compute; reflexivity]. Qed.

(* graceful try-restart, child exits, the respawn fails *)
Definition h_restart_fail : list label :=
  [LSend PNormal CStart 1%nat; LTask SNormal; LAdvance 10; LSend PNormal (CTryGracefulRestart 15 50) 3%nat; LTask SNormal;
   LAdvance 15; LTask SWait].

Lemma ticket_lost_restart_fail_refuted :
  ~ okP (run env_fail v_only_restart_fail_pinned h_restart_fail) 3%nat /\ raisedb (run env_fail fixed h_restart_fail) 3%nat = true.
Proof. split; [intro H; apply okP_okb in H; vm_compute in H; discriminate | vm_compute; reflexivity]. Qed.

(* graceful try-restart beyond the grace period; the replacement later exits by itself *)
Definition h_restart_twice : list label :=
  [LSend PNormal CStart 1%nat; LTask SNormal; LAdvance 10; LSend PNormal (CTryGracefulRestart 15 50) 3%nat; LTask SNormal;
   LAdvance 60; LTask STimer; LAdvance 160; LTask SWait].

Lemma restart_twice_refuted :
  spawns (run env_ign v_only_clear_restart_pinned h_restart_twice) = 3%nat /\ spawns (run env_ign fixed h_restart_twice) = 2%nat.
Proof. vm_compute. split; reflexivity. Qed.

(* wait-for-end on a job that was never started *)
Definition h_wait_idle : list label := [LSend PHigh CNextEnding 1%nat; LTask SHigh; LAdvance 1000].

Lemma wait_idle_refuted :
  raisedb (run env_term v_only_wait_idle_pinned h_wait_idle) 1%nat = false /\ raisedb (run env_term fixed h_wait_idle) 1%nat = true.
Proof. vm_compute. split; reflexivity. Qed.
