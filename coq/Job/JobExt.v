(* A control arm never touches the queues and only appends observations that are not queue
   bookkeeping: the generic "extension" relation used by the ordering and ticket proofs. *)
From Coq Require Import List Arith NArith String Ascii Bool Lia.
From WX Require Import Job.JobModel.
Import ListNotations.
Open Scope N_scope.

Definition quiet (o : ob) : bool := match o with OSent _ _ | OTake _ _ => false | _ => true end.

Definition ext (w w' : world) : Prop :=
  exists ex, obs w' = ex ++ obs w /\ forallb (fun e => quiet (snd e)) ex = true /\
             qu w' = qu w /\ qh w' = qh w /\ qn w' = qn w.

Lemma ext_refl w : ext w w.
Proof. exists []. repeat split; reflexivity. Qed.

Lemma ext_trans a b c : ext a b -> ext b c -> ext a c.
Proof.
  intros (e1 & O1 & Q1 & A1 & B1 & C1) (e2 & O2 & Q2 & A2 & B2 & C2).
  exists (e2 ++ e1). rewrite O2, O1, app_assoc, forallb_app, Q1, Q2. repeat split; congruence.
Qed.

Lemma ext_emit w t o : quiet o = true -> ext w (emit w t o).
Proof. intro Q. exists [(t, o)]. simpl. rewrite Q. repeat split; reflexivity. Qed.

Lemma ext_out w o : quiet o = true -> ext w (out w o).
Proof. apply ext_emit. Qed.

Lemma ext_raise w f : ext w (raise w f).
Proof. apply ext_out. reflexivity. Qed.

Lemma ext_raise_all w fs : ext w (raise_all w fs).
Proof.
  unfold raise_all. revert w. induction fs as [|f r IH]; intro w; simpl; [apply ext_refl|].
  eapply ext_trans; [apply ext_raise | apply IH].
Qed.

(* setters that leave obs and queues alone *)
Lemma ext_same w w' : obs w' = obs w -> qu w' = qu w -> qh w' = qh w -> qn w' = qn w -> ext w w'.
Proof. intros O A B C. exists []. simpl. repeat split; assumption. Qed.

Ltac ext_setter := apply ext_same; reflexivity.

Lemma ext_end_flags w : ext w (end_flags w).
Proof. unfold end_flags. eapply ext_trans; [apply ext_raise_all | ext_setter]. Qed.

Lemma ext_save_prev w : ext w (save_prev w).
Proof. unfold save_prev. ext_setter. Qed.

Section Env.
  Variable E : env.
  Variable V : variant.

  Lemma ext_do_spawn w : ext w (fst (do_spawn E w)).
  Proof.
    unfold do_spawn.
    set (w1 := match hook w with Some h => out w (OHook (attempts w) h (cs w) (prev w)) | None => w end).
    assert (ext w w1) as X1 by (unfold w1; destruct (hook w); [apply ext_out; reflexivity | apply ext_refl]).
    clearbody w1. cbn zeta. destruct (spawn_ok E (attempts w)); cbn [fst].
    - eapply ext_trans; [exact X1|]. eapply ext_trans; [|apply ext_out; reflexivity]. ext_setter.
    - eapply ext_trans; [exact X1|]. eapply ext_trans; [|apply ext_out; reflexivity].
      eapply ext_trans; [|apply ext_out; reflexivity]. ext_setter.
  Qed.

  Lemma ext_do_signal w c sig : ext w (fst (do_signal E w c sig)).
  Proof.
    unfold do_signal. destruct (signal_ok E (nsignals w)); cbn [fst].
    - set (w2 := out (bump_signals w) (OSignal c sig)).
      assert (ext w w2) as X by (unfold w2; eapply ext_trans; [|apply ext_out; reflexivity]; ext_setter).
      clearbody w2. destruct (child_exited w2 c); [exact X|]. destruct (react E c sig); [exact X|].
      eapply ext_trans; [exact X | ext_setter].
    - eapply ext_trans; [|apply ext_out; reflexivity]. eapply ext_trans; [|apply ext_out; reflexivity]. ext_setter.
  Qed.

  Lemma ext_do_kill_wait w c : ext w (fst (do_kill_wait E w c)).
  Proof.
    unfold do_kill_wait. destruct (kill_ok E (nkills w)); cbn [fst].
    - set (w2 := out (bump_kills w) (OKill c)).
      assert (ext w w2) as X by (unfold w2; eapply ext_trans; [|apply ext_out; reflexivity]; ext_setter).
      clearbody w2. destruct (child_exited w2 c).
      + eapply ext_trans; [exact X|]. eapply ext_trans; [|apply ext_out; reflexivity]. ext_setter.
      + eapply ext_trans; [exact X|]. eapply ext_trans; [|apply ext_out; reflexivity]. ext_setter.
    - eapply ext_trans; [|apply ext_out; reflexivity]. eapply ext_trans; [|apply ext_out; reflexivity]. ext_setter.
  Qed.

  Ltac ext_chain :=
    repeat first
      [ apply ext_refl
      | eapply ext_trans; [|apply ext_raise]
      | eapply ext_trans; [|apply ext_end_flags]
      | eapply ext_trans; [|apply ext_do_spawn]
      | eapply ext_trans; [|apply ext_save_prev] ].

  Lemma ext_handle w c f : ext w (handle E V w c f).
  Proof.
    unfold handle. destruct c as [| |sig grace| |sig grace| |sig| | |m|m dur|h|].
    - destruct (cs w); ext_chain.
    - destruct (cs w) as [|ch|st]; [ext_chain | | ext_chain].
      pose proof (ext_do_kill_wait w ch) as X. destruct (do_kill_wait E w ch) as [w1 ok]. cbn [fst] in X.
      destruct ok; (eapply ext_trans; [exact X|]); ext_chain.
    - destruct (cs w) as [|ch|st]; [ext_chain | | ext_chain].
      pose proof (ext_do_signal w ch sig) as X. destruct (do_signal E w ch sig) as [w1 ok]. cbn [fst] in X.
      destruct ok; (eapply ext_trans; [exact X|]); [ext_setter | ext_chain].
    - destruct (cs w) as [|ch|st]; [ext_chain | | ext_chain].
      pose proof (ext_do_kill_wait w ch) as X. destruct (do_kill_wait E w ch) as [w1 ok]. cbn [fst] in X.
      destruct ok; (eapply ext_trans; [exact X|]); ext_chain.
    - destruct (cs w) as [|ch|st]; [ext_chain | | ext_chain].
      pose proof (ext_do_signal w ch sig) as X. destruct (do_signal E w ch sig) as [w1 ok]. cbn [fst] in X.
      destruct ok; (eapply ext_trans; [exact X|]); [ext_setter | ext_chain].
    - set (w0 := if v_clear_restart V then set_oer w None else w).
      assert (ext w w0) as X0 by (unfold w0; destruct (v_clear_restart V); [ext_setter | apply ext_refl]).
      assert (cs w0 = cs w) as C0 by (unfold w0; destruct (v_clear_restart V); reflexivity).
      clearbody w0. eapply ext_trans; [exact X0|].
      destruct (cs w0) as [|ch|st]; [ext_chain | | ext_chain].
      pose proof (ext_do_kill_wait w0 ch) as X. destruct (do_kill_wait E w0 ch) as [w1 ok]. cbn [fst] in X.
      destruct ok; (eapply ext_trans; [exact X|]); ext_chain.
    - destruct (cs w) as [|ch|st]; [ext_chain | | ext_chain].
      eapply ext_trans; [apply ext_do_signal | apply ext_raise].
    - eapply ext_trans; [apply ext_raise | ext_setter].
    - destruct (cs w); [destruct (v_wait_idle V)| |]; try apply ext_raise; ext_setter.
    - eapply ext_trans; [|apply ext_raise]. apply ext_out. reflexivity.
    - eapply ext_trans; [|ext_setter]. eapply ext_trans; [|apply ext_emit; reflexivity]. apply ext_out. reflexivity.
    - eapply ext_trans; [|apply ext_raise]. ext_setter.
    - eapply ext_trans; [|apply ext_raise]. ext_setter.
  Qed.

  Lemma ext_handle_wait w : ext w (handle_wait E V w).
  Proof.
    unfold handle_wait. destruct (cs w) as [|ch|st]; [apply ext_refl | | apply ext_refl].
    set (w1 := out (set_cs w (Finished (child_status w ch))) (OReap ch (child_status w ch))).
    assert (ext w w1) as X1 by (unfold w1; eapply ext_trans; [|apply ext_out; reflexivity]; ext_setter).
    clearbody w1.
    set (w2 := match timer w1 with
               | Some (_, f, is_restart) => let w' := set_timer w1 None in if v_timer_flag V && negb is_restart then raise w' f else w'
               | None => w1 end).
    assert (ext w1 w2) as X2.
    { unfold w2. destruct (timer w1) as [[[d f] ir]|]; [|apply ext_refl]. cbn zeta.
      destruct (v_timer_flag V && negb ir); [eapply ext_trans; [|apply ext_raise]|]; ext_setter. }
    clearbody w2.
    assert (ext w (end_flags w2)) as X3 by (eapply ext_trans; [exact X1|]; eapply ext_trans; [exact X2 | apply ext_end_flags]).
    set (w3 := end_flags w2) in *. clearbody w3.
    destruct (on_end_restart w3) as [f|]; [|exact X3].
    assert (ext w (fst (do_spawn E (save_prev (set_oer w3 None))))) as X4.
    { eapply ext_trans; [exact X3|]. eapply ext_trans; [|apply ext_do_spawn]. ext_setter. }
    destruct (do_spawn E (save_prev (set_oer w3 None))) as [w4 ok]. cbn [fst] in X4.
    destruct ok; [eapply ext_trans; [exact X4 | apply ext_raise]|].
    destruct (v_restart_fail_flag V); [eapply ext_trans; [exact X4 | apply ext_raise] | exact X4].
  Qed.

  Lemma ext_finish_end w : ext w (finish_end w).
  Proof.
    unfold finish_end. destruct (ended w); [|apply ext_refl].
    destruct (cs w); try (apply ext_out; reflexivity).
    eapply ext_trans; apply ext_out; reflexivity.
  Qed.

  Lemma ext_settle_park w : ext w (settle_park w).
  Proof. unfold settle_park. destruct (ended w); [apply ext_refl|]. destruct (now w <? busy_until w); ext_setter. Qed.

  Lemma ext_normalize w : ext w (normalize w).
  Proof.
    unfold normalize. destruct (ended w || (now w <? busy_until w) || parked w); [apply ext_refl|].
    destruct (recv_fresh w); [apply ext_refl | ext_setter].
  Qed.
End Env.
