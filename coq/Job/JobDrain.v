(* C07, liveness half: under an eager runtime every accepted control is executed -- and its ticket resolved -- within the
   grace periods in effect; what can stay pending afterwards is only a wait-for-end ticket of a command that is still running. *)
From Coq Require Import List Arith NArith Bool Lia.
From WX Require Import Job.JobModel Job.JobInv Job.JobExt Job.JobTickets Job.JobQuit.
Import ListNotations.
Open Scope N_scope.

(* nothing left to execute: every queue is empty, no timer is armed, no async hook is in progress (or the job is gone) *)
Definition drained (w : world) : bool :=
  ended w ||
  match qu w, qh w, qn w, timer w with
  | [], [], [], None => busy_until w <=? now w
  | _, _, _, _ => false
  end.

Definition grows (w w' : world) : Prop := exists ex, obs w' = ex ++ obs w.
Lemma grows_refl w : grows w w.
Proof. exists []. reflexivity. Qed.
Lemma grows_trans a b c : grows a b -> grows b c -> grows a c.
Proof. intros [x Hx] [y Hy]. exists (y ++ x). rewrite Hy, Hx, app_assoc. reflexivity. Qed.
Lemma ext_grows w w' : ext w w' -> grows w w'.
Proof. intros (ex & O & _). exists ex. exact O. Qed.

Section Drain.
  Variable E : env.
  Notation V := fixed.

  Lemma task_step_grows w s : grows w (task_step E V w s).
  Proof.
    unfold task_step.
    assert (forall x, grows x (settle_park (finish_end x))) as Tail
      by (intro x; eapply grows_trans; apply ext_grows; [apply ext_finish_end | apply ext_settle_park]).
    assert (forall x c f, grows x (handle E V x c f)) as H by (intros; apply ext_grows, ext_handle).
    destruct s.
    - eapply grows_trans; [apply ext_grows, ext_handle_wait | apply Tail].
    - destruct (timer w) as [[[d f] r]|]; [|apply Tail]. eapply grows_trans; [|apply Tail].
      eapply grows_trans; [|apply H]. exists []. reflexivity.
    - destruct (pop (qu w)) as [[[c f] r]|]; [|apply Tail]. eapply grows_trans; [|apply Tail]. eapply grows_trans; [|apply H]. eexists [_]. reflexivity.
    - destruct (pop (qh w)) as [[[c f] r]|]; [|apply Tail]. eapply grows_trans; [|apply Tail]. eapply grows_trans; [|apply H]. eexists [_]. reflexivity.
    - destruct (pop (qn w)) as [[[c f] r]|]; [|apply Tail]. eapply grows_trans; [|apply Tail]. eapply grows_trans; [|apply H]. eexists [_]. reflexivity.
  Qed.

  Definition drain_step (ch : nat) (w : world) : option world :=
    if drained (normalize w) then None else eager_step E ch w.

  Fixpoint drain_run (fuel : nat) (ch : nat -> nat) (w : world) : world :=
    match fuel with
    | O => w
    | S n => match drain_step (ch n) w with Some w' => drain_run n ch w' | None => w end
    end.

  Lemma stuck_general w : ended w = false -> drained w = false -> enabled V w = [] ->
    now w < busy_until w \/ exists d f r, timer w = Some (d, f, r) /\ now w < d.
  Proof.
    intros NE D. unfold enabled. rewrite NE. destruct (now w <? busy_until w) eqn:B; [intros _; left; apply N.ltb_lt; exact B|].
    intro H. apply app_eq_nil in H. destruct H as [_ H]. right.
    unfold drained in D. rewrite NE in D. cbn [orb] in D. apply N.ltb_ge in B.
    assert (timer w = None -> nonempty (qu w) = true \/ nonempty (qh w) = true \/ nonempty (qn w) = true) as Q.
    { intro T. rewrite T in D. destruct (qu w); [|left; reflexivity]. destruct (qh w); [|right; left; reflexivity].
      destruct (qn w); [|right; right; reflexivity]. apply N.leb_gt in D. lia. }
    destruct (parked w).
    - change (v_biased V) with true in H. cbv iota in H. destruct (recv_parked w) as [|s r] eqn:R; [|discriminate].
      unfold recv_parked, timer_due in R. destruct (timer w) as [[[d f] r]|].
      + destruct (d <=? now w) eqn:L; [discriminate|]. exists d, f, r. split; [reflexivity | apply N.leb_gt; exact L].
      + exfalso. destruct (Q eq_refl) as [X|[X|X]]; rewrite X in R; cbn [app] in R;
          repeat (match type of R with context [if ?b then _ else _] => destruct b end; cbn [app] in R); discriminate.
    - destruct (recv_fresh w) eqn:R; [discriminate|]. unfold recv_fresh, timer_due in R. destruct (timer w) as [[[d f] r]|].
      + destruct (d <=? now w) eqn:L; [discriminate|]. exists d, f, r. split; [reflexivity | apply N.leb_gt; exact L].
      + exfalso. destruct (Q eq_refl) as [X|[X|X]]; rewrite X in R;
          repeat (match type of R with context [if ?b then _ else _] => destruct b end); discriminate.
  Qed.

  Lemma drained_sk w w' : sk w' = sk w -> drained w' = drained w.
  Proof. unfold sk, drained. intro H. injection H as A B C D F G H I. rewrite A, B, D, F, G, H, I. reflexivity. Qed.

  Theorem drain_terminates fuel ch : forall w,
    (4 * mu w + nu w < fuel)%nat ->
    let w' := drain_run fuel ch w in drained (normalize w') = true /\ now w' <= now w + slack w.
  Proof.
    induction fuel as [|fuel IH]; intros w F; [lia|]. cbn [drain_run]. unfold drain_step.
    destruct (normalize_sk w) as (S & C & K). destruct (sk_cands _ _ S C K) as (_ & NU & MU & _).
    destruct (sk_slack _ _ S) as (SL & _ & NW & EN & _).
    destruct (drained (normalize w)) eqn:D; [cbv zeta; split; [exact D | lia]|].
    unfold eager_step. cbv zeta. set (wn := normalize w) in *.
    assert (ended wn = false) as NE by (unfold drained in D; destruct (ended wn); [discriminate | reflexivity]).
    rewrite NE. destruct (enabled V wn) as [|s r] eqn:L.
    - destruct (advance_core wn (stuck_general wn NE D L)) as (t & NX & Lt & PH & M & N').
      rewrite NX. specialize (IH (set_now wn t)). cbv zeta in IH. destruct IH as [A B]; [lia|]. split; [exact A|]. cbn [now set_now] in B. lia.
    - set (s' := pick (ch fuel) s r).
      assert (In s' (enabled V wn)) as I by (rewrite L; apply pick_In).
      destruct (task_step_measure E wn s' I) as (A & B & M).
      set (X := task_step E V wn s') in *. pose proof (nu_le X). specialize (IH X). cbv zeta in IH.
      destruct IH as [A' B']; [lia|]. split; [exact A' | lia].
  Qed.

  (* the drain only takes transitions of the label semantics *)
  Lemma drain_step_is_step ch w w' : drain_step ch w = Some w' -> exists l, w' = step E V w l /\ api_label l = true.
  Proof.
    unfold drain_step. destruct (drained (normalize w)); [discriminate|]. intro H.
    unfold eager_step in H. cbv zeta in H. destruct (ended (normalize w)) eqn:En; [discriminate|].
    destruct (enabled V (normalize w)) as [|s r] eqn:L.
    - destruct (next_event (normalize w)) as [t|] eqn:NE; [|discriminate]. injection H as <-.
      exists (LAdvance t). split; [|reflexivity]. cbn [step]. destruct (next_event_spec _ _ NE) as [I _].
      unfold future in I. apply filter_In in I. destruct I as [_ I]. rewrite I. reflexivity.
    - injection H as <-. set (s' := pick ch s r). assert (In s' (s :: r)) as I by apply pick_In.
      exists (LTask s'). split; [|reflexivity]. cbn [step]. rewrite L.
      assert (existsb (fun x => match x, s' with
                                | SWait, SWait | STimer, STimer | SUrgent, SUrgent | SHigh, SHigh | SNormal, SNormal => true
                                | _, _ => false end) (s :: r) = true) as ->; [|reflexivity].
      apply existsb_exists. exists s'. split; [exact I | destruct s'; reflexivity].
  Qed.

  Lemma drain_run_K fuel ch : forall w, K w -> K (drain_run fuel ch w).
  Proof.
    induction fuel as [|n IH]; intros w Hk; [exact Hk|]. cbn [drain_run].
    destruct (drain_step (ch n) w) as [w'|] eqn:S; [|exact Hk]. apply IH.
    destruct (drain_step_is_step _ _ _ S) as (l & -> & Al). apply K_step; assumption.
  Qed.

  Lemma sentP_drain fuel ch : forall w f, sentP w f -> sentP (drain_run fuel ch w) f.
  Proof.
    induction fuel as [|n IH]; intros w f H; [exact H|]. cbn [drain_run].
    destruct (drain_step (ch n) w) as [w'|] eqn:S; [|exact H]. apply IH.
    assert (grows w w') as [ex O].
    { unfold drain_step in S. destruct (drained (normalize w)); [discriminate|]. unfold eager_step in S. cbv zeta in S.
      destruct (ended (normalize w)); [discriminate|]. assert (grows w (normalize w)) as G0 by apply ext_grows, ext_normalize.
      destruct (enabled V (normalize w)).
      - destruct (next_event (normalize w)); [|discriminate]. injection S as <-. eapply grows_trans; [exact G0 | exists []; reflexivity].
      - injection S as <-. eapply grows_trans; [exact G0 | apply task_step_grows]. }
    destruct H as (t & p & H). exists t, p. rewrite O. apply in_or_app. right. exact H.
  Qed.

  (* C07, liveness: from any reachable state of an API-driven job, the eager runtime executes every queued control within
     the grace periods in effect; afterwards every ticket issued so far is resolved, except wait-for-end tickets of a
     command that is still running (they resolve when it ends: C07_process_end_releases) *)
  Theorem every_ticket_resolves ls ch :
    forallb api_label ls = true ->
    let w := run E V ls in
    let w' := drain_run (S (4 * mu w + nu w)) ch w in
    now w' <= now w + slack w /\
    forall f, sentP w f -> raisedP w' f \/ In f (on_end w') \/ ended w' = true.
  Proof.
    intros Al w w'.
    assert (K w) as Hk.
    { unfold w, run. assert (forall x, K x -> K (fold_left (step E V) ls x)) as G.
      { revert Al. induction ls as [|l r IH]; intros Al x H; cbn [fold_left]; [exact H|].
        cbn [forallb] in Al. apply andb_true_iff in Al. destruct Al as [Al1 Al2]. apply IH; [exact Al2 | apply K_step; assumption]. }
      apply G, K_init. }
    destruct (drain_terminates (S (4 * mu w + nu w)) ch w ltac:(lia)) as [D B]. fold w' in D, B.
    split; [exact B|]. intros f Hs.
    pose proof (drain_run_K (S (4 * mu w + nu w)) ch w Hk) as (_ & _ & Jo' & Acc'). fold w' in Jo', Acc'.
    destruct (Acc' f (sentP_drain _ ch w f Hs)) as [R|[H|En]]; [left; exact R | | right; right; exact En].
    (* held by the drained job: only the wait-for-end list can hold it *)
    destruct (normalize_sk w') as (Sk & _ & _). rewrite (drained_sk _ _ Sk) in D. unfold drained in D.
    destruct (ended w') eqn:En; [right; right; reflexivity|]. cbn [orb] in D.
    unfold held, qflags, tflag, oflag in H.
    destruct (qu w') eqn:Q1; [|discriminate]. destruct (qh w') eqn:Q2; [|discriminate]. destruct (qn w') eqn:Q3; [|discriminate].
    destruct (timer w') eqn:T; [discriminate|].
    destruct (on_end_restart w') as [g|] eqn:O; [destruct (Jo' g O) as [d X]; rewrite T in X; discriminate|].
    cbn in H. rewrite app_nil_r in H. right. left. exact H.
  Qed.
End Drain.
