(* C04: at most one spawned-and-unreaped child, for every label sequence, environment and variant. *)
From Coq Require Import List Arith NArith String Ascii Bool Lia.
From WX Require Import Job.JobModel.
Import ListNotations.
Open Scope N_scope.

(* the children that have been spawned and not yet reaped, read off the observation log (newest first) *)
Definition apply_ob (o : ob) (l : list nat) : list nat :=
  match o with
  | OSpawn c => c :: l
  | OReap c _ => remove Nat.eq_dec c l
  | _ => l
  end.
Fixpoint live_of (l : list (time * ob)) : list nat :=
  match l with [] => [] | (_, o) :: r => apply_ob o (live_of r) end.
Definition live (w : world) : list nat := live_of (obs w).

Definition expected_live (c : cstate) : list nat := match c with Running ch => [ch] | _ => [] end.
Definition Inv (w : world) : Prop := live w = expected_live (cs w).

Ltac wsimpl :=
  cbn [now cs prev timer on_end on_end_restart qu qh qn parked busy_until hook ended kids attempts nsignals nkills obs
       emit out set_cs set_prev set_timer set_on_end set_oer set_queues set_parked set_busy set_hook set_ended
       set_kids set_now bump_attempts bump_signals bump_kills raise live live_of apply_ob].

Lemma raise_key w f : cs (raise w f) = cs w /\ live (raise w f) = live w.
Proof. split; reflexivity. Qed.

Lemma raise_all_key w fs : cs (raise_all w fs) = cs w /\ live (raise_all w fs) = live w.
Proof.
  unfold raise_all. revert w. induction fs as [|f r IH]; intro w; simpl; [split; reflexivity|].
  destruct (IH (raise w f)) as [A B]. rewrite A, B. split; reflexivity.
Qed.

Lemma end_flags_key w : cs (end_flags w) = cs w /\ live (end_flags w) = live w.
Proof. unfold end_flags. destruct (raise_all_key w (on_end w)) as [A B]. split; [exact A | exact B]. Qed.

Lemma remove_single c : remove Nat.eq_dec c [c] = [].
Proof. simpl. destruct (Nat.eq_dec c c); [reflexivity | contradiction]. Qed.

Section Env.
  Variable E : env.
  Variable V : variant.

  (* spawning from a non-running state *)
  Lemma do_spawn_inv w :
    live w = [] -> (forall c, cs w <> Running c) ->
    Inv (fst (do_spawn E w)).
  Proof.
    intros L NR. unfold do_spawn.
    set (w1 := match hook w with Some h => out w (OHook (attempts w) h (cs w) (prev w)) | None => w end).
    assert (live w1 = [] /\ cs w1 = cs w) as [L1 C1] by (unfold w1; destruct (hook w); split; assumption || reflexivity).
    clearbody w1. cbn zeta.
    destruct (spawn_ok E (attempts w)); cbn [fst]; unfold Inv.
    - cbn [cs set_cs out emit]. unfold live. cbn [obs out emit set_cs set_kids bump_attempts live_of apply_ob].
      fold (live w1). rewrite L1. reflexivity.
    - cbn [cs out emit bump_attempts]. unfold live. cbn [obs out emit bump_attempts live_of apply_ob].
      fold (live w1). rewrite L1, C1. destruct (cs w) eqn:C; try reflexivity. exfalso. eapply NR. reflexivity.
  Qed.

  Lemma do_signal_key w c sig : cs (fst (do_signal E w c sig)) = cs w /\ live (fst (do_signal E w c sig)) = live w.
  Proof.
    unfold do_signal. destruct (signal_ok E (nsignals w)); wsimpl; [|split; reflexivity].
    destruct (child_exited _ c); [split; reflexivity|].
    destruct (react E c sig); split; reflexivity.
  Qed.

  Lemma do_kill_wait_key w c :
    cs w = Running c -> live w = [c] ->
    let r := do_kill_wait E w c in
    (snd r = true -> live (fst r) = [] /\ exists st, cs (fst r) = Finished st) /\
    (snd r = false -> live (fst r) = [c] /\ cs (fst r) = Running c).
  Proof.
    intros C L. unfold do_kill_wait. destruct (kill_ok E (nkills w)); cbn zeta.
    - split; [|discriminate]. intros _.
      destruct (child_exited _ c); cbn [fst snd]; wsimpl; change (live_of (obs w)) with (live w); rewrite L, remove_single;
        (split; [reflexivity | eexists; reflexivity]).
    - split; [discriminate|]. intros _. cbn [fst snd]. wsimpl. change (live_of (obs w)) with (live w). split; assumption.
  Qed.

  Lemma save_prev_key w : cs (save_prev w) = Pending /\ live (save_prev w) = live w.
  Proof. split; reflexivity. Qed.

  Lemma set_timer_key w t : cs (set_timer w t) = cs w /\ live (set_timer w t) = live w.
  Proof. split; reflexivity. Qed.

  Ltac key_rewrite :=
    repeat match goal with
    | |- context [cs (raise ?w ?f)] => change (cs (raise w f)) with (cs w)
    | |- context [live (raise ?w ?f)] => change (live (raise w f)) with (live w)
    end.

  Lemma Inv_raise w f : Inv w -> Inv (raise w f).
  Proof. intro I. exact I. Qed.

  Lemma Inv_end_flags w : Inv w -> Inv (end_flags w).
  Proof. intro I. unfold Inv. destruct (end_flags_key w) as [A B]. rewrite A, B. exact I. Qed.

  Lemma Inv_not_running_spawn w :
    Inv w -> (forall c, cs w <> Running c) -> Inv (fst (do_spawn E (save_prev w))).
  Proof.
    intros I NR. apply do_spawn_inv.
    - destruct (save_prev_key w) as [_ B]. rewrite B. unfold Inv in I. rewrite I.
      destruct (cs w) eqn:C; try reflexivity. exfalso. eapply NR. reflexivity.
    - intros c. destruct (save_prev_key w) as [A _]. rewrite A. discriminate.
  Qed.

  (* every control preserves the invariant *)
  Lemma handle_inv w c f : Inv w -> Inv (handle E V w c f).
  Proof.
    intro I. unfold handle.
    destruct c as [| |sig grace| |sig grace| |sig| | |m|m dur|h|].
    - (* Start *)
      destruct (cs w) eqn:C; [| apply Inv_raise; exact I |];
        apply Inv_raise; apply Inv_not_running_spawn; [exact I | rewrite C; discriminate | exact I | rewrite C; discriminate].
    - (* Stop *)
      destruct (cs w) as [|ch|st] eqn:C; [apply Inv_raise; exact I | | apply Inv_raise; exact I].
      assert (live w = [ch]) as L by (unfold Inv in I; rewrite I, C; reflexivity).
      pose proof (do_kill_wait_key w ch C L) as [K1 K2]. destruct (do_kill_wait E w ch) as [w1 ok]. simpl in *.
      destruct ok.
      + destruct (K1 eq_refl) as [L1 [st C1]]. apply Inv_raise, Inv_end_flags. unfold Inv. rewrite L1, C1. reflexivity.
      + destruct (K2 eq_refl) as [L1 C1]. apply Inv_raise. unfold Inv. rewrite L1, C1. reflexivity.
    - (* GracefulStop *)
      destruct (cs w) as [|ch|st] eqn:C; [apply Inv_raise; exact I | | apply Inv_raise; exact I].
      pose proof (do_signal_key w ch sig) as [A B]. destruct (do_signal E w ch sig) as [w1 ok]. simpl in *.
      destruct ok; [|apply Inv_raise]; unfold Inv; wsimpl; unfold live in *; wsimpl; rewrite A; rewrite B; exact I.
    - (* TryRestart *)
      destruct (cs w) as [|ch|st] eqn:C; [apply Inv_raise; exact I | | apply Inv_raise; exact I].
      assert (live w = [ch]) as L by (unfold Inv in I; rewrite I, C; reflexivity).
      pose proof (do_kill_wait_key w ch C L) as [K1 K2]. destruct (do_kill_wait E w ch) as [w1 ok]. simpl in *.
      destruct ok.
      + destruct (K1 eq_refl) as [L1 [st C1]]. apply Inv_raise.
        apply do_spawn_inv.
        * destruct (end_flags_key (save_prev w1)) as [_ B]. rewrite B. exact L1.
        * intro c0. destruct (end_flags_key (save_prev w1)) as [A _]. rewrite A. discriminate.
      + destruct (K2 eq_refl) as [L1 C1]. apply Inv_raise. unfold Inv. rewrite L1, C1. reflexivity.
    - (* TryGracefulRestart *)
      destruct (cs w) as [|ch|st] eqn:C; [apply Inv_raise; exact I | | apply Inv_raise; exact I].
      pose proof (do_signal_key w ch sig) as [A B]. destruct (do_signal E w ch sig) as [w1 ok]. simpl in *.
      destruct ok; [|apply Inv_raise]; unfold Inv; wsimpl; unfold live in *; wsimpl; rewrite A; rewrite B; exact I.
    - (* ContinueTGR *)
      set (w0 := if v_clear_restart V then set_oer w None else w).
      assert (Inv w0) as I0 by (unfold w0; destruct (v_clear_restart V); exact I).
      assert (cs w0 = cs w) as C0 by (unfold w0; destruct (v_clear_restart V); reflexivity).
      clearbody w0. rewrite C0.
      destruct (cs w) as [|ch|st] eqn:C.
      + apply Inv_raise, Inv_not_running_spawn; [exact I0 | rewrite C0; discriminate].
      + assert (live w0 = [ch]) as L by (unfold Inv in I0; rewrite I0, C0; reflexivity).
        pose proof (do_kill_wait_key w0 ch C0 L) as [K1 K2]. destruct (do_kill_wait E w0 ch) as [w1 ok]. simpl in *.
        destruct ok.
        * destruct (K1 eq_refl) as [L1 [st C1]]. apply Inv_raise, Inv_not_running_spawn.
          -- apply Inv_end_flags. unfold Inv. rewrite L1, C1. reflexivity.
          -- intro c0. destruct (end_flags_key w1) as [A _]. rewrite A, C1. discriminate.
        * destruct (K2 eq_refl) as [L1 C1]. apply Inv_raise. unfold Inv. rewrite L1, C1. reflexivity.
      + apply Inv_raise, Inv_not_running_spawn; [exact I0 | rewrite C0; discriminate].
    - (* Signal *)
      destruct (cs w) as [|ch|st] eqn:C; [apply Inv_raise; exact I | | apply Inv_raise; exact I].
      pose proof (do_signal_key w ch sig) as [A B]. apply Inv_raise. unfold Inv. rewrite A, B. exact I.
    - (* Delete *) exact I.
    - (* NextEnding *)
      destruct (cs w); [destruct (v_wait_idle V)| |]; exact I.
    - exact I.
    - exact I.
    - exact I.
    - exact I.
  Qed.

  Lemma handle_wait_inv w : Inv w -> Inv (handle_wait E V w).
  Proof.
    intro I. unfold handle_wait. destruct (cs w) as [|ch|st] eqn:C; [exact I | | exact I].
    assert (live w = [ch]) as L by (unfold Inv in I; rewrite I, C; reflexivity).
    set (w1 := out (set_cs w (Finished (child_status w ch))) (OReap ch (child_status w ch))).
    assert (Inv w1) as I1.
    { unfold Inv, w1. wsimpl. unfold live. wsimpl. fold (live w). rewrite L, remove_single. reflexivity. }
    assert (forall c, cs w1 <> Running c) as NR1 by (intro; unfold w1; wsimpl; discriminate).
    clearbody w1.
    set (w2 := match timer w1 with
               | Some (_, f, is_restart) => let w' := set_timer w1 None in if v_timer_flag V && negb is_restart then raise w' f else w'
               | None => w1 end).
    assert (Inv w2 /\ cs w2 = cs w1) as [I2 C2].
    { unfold w2. destruct (timer w1) as [[[d f] ir]|]; [|split; [exact I1 | reflexivity]].
      cbn zeta. destruct (v_timer_flag V && negb ir); split; try reflexivity; exact I1. }
    clearbody w2.
    assert (Inv (end_flags w2)) as I3 by (apply Inv_end_flags; exact I2).
    assert (cs (end_flags w2) = cs w1) as C3 by (destruct (end_flags_key w2) as [A _]; rewrite A; exact C2).
    set (w3 := end_flags w2) in *. clearbody w3.
    destruct (on_end_restart w3) as [f|]; [|exact I3].
    assert (Inv (fst (do_spawn E (save_prev (set_oer w3 None))))) as I4.
    { apply Inv_not_running_spawn; [exact I3 | intro c0; change (cs (set_oer w3 None)) with (cs w3); rewrite C3; apply NR1]. }
    destruct (do_spawn E (save_prev (set_oer w3 None))) as [w4 ok]. simpl in I4.
    destruct ok; [exact I4|]. destruct (v_restart_fail_flag V); exact I4.
  Qed.

  Lemma settle_park_inv w : Inv w -> Inv (settle_park w).
  Proof. intro I. unfold settle_park. destruct (ended w); [exact I|]. destruct (now w <? busy_until w); exact I. Qed.

  (* when the task ends with a running child, the child handle is dropped (KillOnDrop): the log records
     ODrop, which is not a reap -- the invariant is about the job's own bookkeeping while it is alive *)
  Lemma finish_end_cs w : cs (finish_end w) = cs w /\ live (finish_end w) = live w.
  Proof.
    unfold finish_end. destruct (ended w); [|split; reflexivity].
    destruct (cs w) eqn:C; unfold live; cbn [cs obs out emit live_of apply_ob]; rewrite ?C; split; reflexivity.
  Qed.

  Lemma task_step_inv w s : Inv w -> Inv (task_step E V w s).
  Proof.
    intro I. unfold task_step. apply settle_park_inv.
    match goal with |- Inv (finish_end ?x) => assert (Inv x) as Ix end.
    { destruct s.
      - apply handle_wait_inv; exact I.
      - destruct (timer w) as [[[d f] ir]|]; [|exact I]. apply handle_inv. exact I.
      - destruct (pop (qu w)) as [[[c f] r]|]; [apply handle_inv|]; exact I.
      - destruct (pop (qh w)) as [[[c f] r]|]; [apply handle_inv|]; exact I.
      - destruct (pop (qn w)) as [[[c f] r]|]; [apply handle_inv|]; exact I. }
    unfold Inv in *. match goal with |- live (finish_end ?x) = _ => destruct (finish_end_cs x) as [A B]; rewrite A, B; exact Ix end.
  Qed.

  Lemma normalize_inv w : Inv w -> Inv (normalize w).
  Proof.
    intro I. unfold normalize. destruct (ended w || (now w <? busy_until w) || parked w); [exact I|].
    destruct (recv_fresh w); exact I.
  Qed.

  Lemma step_inv w l : Inv w -> Inv (step E V w l).
  Proof.
    intro I. unfold step. pose proof (normalize_inv w I) as In_. set (w' := normalize w) in *. clearbody w'.
    destruct l as [p c f | s | t].
    - unfold send. destruct (ended w'); [exact In_|]. destruct p; exact In_.
    - destruct (existsb _ (enabled V w')); [apply task_step_inv|]; exact In_.
    - destruct (now w' <? t); exact In_.
  Qed.

  Theorem run_inv ls : Inv (run E V ls).
  Proof.
    unfold run. assert (forall w, Inv w -> Inv (fold_left (step E V) ls w)) as G.
    { induction ls as [|l r IH]; intros w I; simpl; [exact I | apply IH, step_inv, I]. }
    apply G. reflexivity.
  Qed.

  (* the statement of C04 *)
  Theorem at_most_one_live ls : (List.length (live (run E V ls)) <= 1)%nat.
  Proof. pose proof (run_inv ls) as I. unfold Inv in I. rewrite I. destruct (cs (run E V ls)); simpl; lia. Qed.
End Env.
