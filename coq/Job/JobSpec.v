(* C09: the documented semantics of the job controls as a small sequential reference machine, and the
   proof that every arm of the detailed task model refines it on the observable state (current run,
   previous run, hook) and on the effects it causes (spawn attempts, signals, kills, reaps). *)
From Coq Require Import List Arith NArith String Ascii Bool Lia.
From WX Require Import Job.JobModel Job.JobExt.
Import ListNotations.
Open Scope N_scope.

(* ---- the reference machine, written from the rustdoc of Job and Control ---- *)
Record sstate : Type := mkS { s_cur : cstate; s_prev : option cstate; s_hook : option N; s_over : bool }.

Inductive effect : Set :=
  | EHook (h : N) | ESpawn (ok : bool) | ESignal (sig : N) (ok : bool) | EKill (ok : bool) | EReap (status : N) | EMark (m : N) (cur : cstate) (prev : option cstate).

(* answers of the outside world to what the machine attempts *)
Record answers : Set := mkA { a_spawn : bool; a_signal : bool; a_kill : bool; a_status : N; a_child : nat }.

Definition s_reset (c : cstate) : cstate := match c with Running _ => Finished 65535 | x => x end.

Definition spec_spawn (s : sstate) (a : answers) : sstate * list effect :=
  let hk := match s_hook s with Some h => [EHook h] | None => [] end in
  (mkS (if a_spawn a then Running (a_child a) else Pending) (Some (s_reset (s_cur s))) (s_hook s) (s_over s),
   hk ++ [ESpawn (a_spawn a)]).

(* "Start the command if it's not running", "Stop the command if it's running and wait for completion",
   "Restart the command if it's running, but don't start it if it's not", "Send a signal to the command"
   (no-op when not running), "Get a future which resolves when the command ends; if the command is not
   running, the future resolves immediately" *)
Definition spec_exec (s : sstate) (c : ctrl) (a : answers) : sstate * list effect * bool (* resolves now *) :=
  match c with
  | CStart =>
      match s_cur s with
      | Running _ => (s, [], true)
      | _ => let (s', e) := spec_spawn s a in (s', e, true)
      end
  | CStop =>
      match s_cur s with
      | Running _ =>
          if a_kill a then (mkS (Finished (a_status a)) (s_prev s) (s_hook s) (s_over s), [EKill true; EReap (a_status a)], true)
          else (s, [EKill false], true)
      | _ => (s, [], true)
      end
  | CTryRestart =>
      match s_cur s with
      | Running _ =>
          if a_kill a then
            let s1 := mkS (Finished (a_status a)) (s_prev s) (s_hook s) (s_over s) in
            let (s2, e) := spec_spawn s1 a in (s2, [EKill true; EReap (a_status a)] ++ e, true)
          else (s, [EKill false], true)
      | _ => (s, [], true)
      end
  | CSignal sig =>
      match s_cur s with
      | Running _ => (s, [ESignal sig (a_signal a)], true)
      | _ => (s, [], true)
      end
  | CNextEnding =>
      match s_cur s with
      | Running _ => (s, [], false)
      | _ => (s, [], true)
      end
  | CSyncFunc m => (s, [EMark m (s_cur s) (s_prev s)], true)
  | CSetHook h => (mkS (s_cur s) (s_prev s) (Some h) (s_over s), [], true)
  | CUnsetHook => (mkS (s_cur s) (s_prev s) None (s_over s), [], true)
  | CDelete => (mkS (s_cur s) (s_prev s) (s_hook s) true, [], true)
  | _ => (s, [], true)      (* graceful controls and run_async: timing semantics, see C06 / C07 *)
  end.

(* ---- abstraction of the detailed model ---- *)
Definition abs (w : world) : sstate := mkS (cs w) (prev w) (hook w) (ended w).

Definition eff_of (o : ob) : list effect :=
  match o with
  | OHook _ h _ _ => [EHook h]
  | OSpawn _ => [ESpawn true]
  | OSpawnFail _ => [ESpawn false]
  | OSignal _ s => [ESignal s true]
  | OSignalFail _ s => [ESignal s false]
  | OKill _ => [EKill true]
  | OKillFail _ => [EKill false]
  | OReap _ st => [EReap st]
  | OMark m c p => [EMark m c p]
  | _ => []
  end.
(* the effects recorded in a log (newest first), oldest first *)
Fixpoint effects (l : list (time * ob)) : list effect :=
  match l with [] => [] | (_, o) :: r => effects r ++ eff_of o end.

Definition simple_ctrl (c : ctrl) : bool :=
  match c with
  | CStart | CStop | CTryRestart | CSignal _ | CNextEnding | CSyncFunc _ | CSetHook _ | CUnsetHook | CDelete => true
  | _ => false
  end.

Lemma effects_raise w f : effects (obs (raise w f)) = effects (obs w).
Proof. cbn. apply app_nil_r. Qed.

Lemma effects_raise_all w fs : effects (obs (raise_all w fs)) = effects (obs w).
Proof.
  unfold raise_all. revert w. induction fs as [|f r IH]; intro w; simpl; [reflexivity|].
  rewrite IH. apply effects_raise.
Qed.

Lemma end_flags_abs w :
  effects (obs (end_flags w)) = effects (obs w) /\ cs (end_flags w) = cs w /\ prev (end_flags w) = prev w /\
  hook (end_flags w) = hook w /\ ended (end_flags w) = ended w /\ attempts (end_flags w) = attempts w /\ kids (end_flags w) = kids w.
Proof.
  unfold end_flags. cbn [obs cs prev hook ended attempts kids set_on_end]. split; [apply effects_raise_all|].
  unfold raise_all. generalize (on_end w). intro l. revert w. induction l as [|f r IH]; intro w; simpl; [repeat split; reflexivity|].
  destruct (IH (raise w f)) as (A & B & C & D & F & G). repeat split; assumption.
Qed.

Lemma update_nth_length {A} n (g : A -> A) l : List.length (update_nth n g l) = List.length l.
Proof. revert n. induction l as [|x r IH]; intro n; destruct n; simpl; auto. Qed.

Section Env.
  Variable E : env.

  (* the answers the environment gives in world w *)
  Definition answers_of (w : world) : answers :=
    mkA (spawn_ok E (attempts w)) (signal_ok E (nsignals w)) (kill_ok E (nkills w))
        (match cs w with
         | Running c => let w2 := out (bump_kills w) (OKill c) in
                        if child_exited w2 c then child_status w2 c
                        else child_status (set_kids w2 (update_nth c (fun k => mkChild (c_spawned k) (Some (now w2)) 9) (kids w2))) c
         | _ => 0 end)
        (List.length (kids w)).

  Definition refines (w w' : world) (c : ctrl) (f : flag) : Prop :=
    let '(s', e, now_) := spec_exec (abs w) c (answers_of w) in
    abs w' = s' /\ effects (obs w') = effects (obs w) ++ e /\
    (now_ = true -> exists t, In (t, ORaise f) (obs w')) /\ (now_ = false -> obs w' = obs w).

  (* one spawn attempt *)
  Lemma do_spawn_spec y :
    let w' := fst (do_spawn E y) in
    cs w' = (if spawn_ok E (attempts y) then Running (List.length (kids y)) else cs y) /\
    prev w' = prev y /\ hook w' = hook y /\ ended w' = ended y /\
    effects (obs w') = effects (obs y) ++ (match hook y with Some h => [EHook h] | None => [] end) ++ [ESpawn (spawn_ok E (attempts y))].
  Proof.
    unfold do_spawn.
    destruct (hook y) as [h|] eqn:H; destruct (spawn_ok E (attempts y)); cbn; rewrite ?H, ?app_nil_r, <- ?app_assoc; repeat split; reflexivity.
  Qed.

  Lemma reset_cs_s_reset c : reset_cs c = s_reset c.
  Proof. destruct c; reflexivity. Qed.

  Ltac close C :=
    cbn [cs prev hook ended raise out emit obs effects eff_of set_hook set_ended set_on_end set_cs set_kids bump_signals bump_kills];
    rewrite ?C, ?app_nil_r, <- ?app_assoc;
    (split; [reflexivity|]); (split; [reflexivity|]);
    split; [try discriminate; intros _; eexists; left; reflexivity | try discriminate; intros _; reflexivity].

  Theorem handle_refines w c f : simple_ctrl c = true -> refines w (handle E fixed w c f) c f.
  Proof.
    intro S. unfold refines. destruct c; try discriminate; unfold handle, spec_exec, abs; cbn [s_cur s_prev s_hook s_over].
    - (* Start *)
      destruct (cs w) as [|ch|st] eqn:C; [ | close C | ];
        destruct (do_spawn_spec (save_prev w)) as (A & B & H & En & Ef); unfold spec_spawn, answers_of; cbn [s_hook s_cur a_spawn a_child];
        rewrite effects_raise, Ef; cbn [cs prev hook ended raise out emit]; rewrite A, B, H, En;
        cbn [cs prev hook ended attempts kids obs save_prev set_cs set_prev]; rewrite C; cbn [reset_cs s_reset];
        destruct (spawn_ok E (attempts w));
        (split; [reflexivity|]); (split; [reflexivity|]); (split; [intros _; eexists; left; reflexivity | discriminate]).
    - (* Stop *)
      destruct (cs w) as [|ch|st] eqn:C; [close C | | close C].
      unfold do_kill_wait, answers_of. cbn [a_kill a_status]. rewrite C. destruct (kill_ok E (nkills w)); cbn zeta; [|close C].
      destruct (child_exited (out (bump_kills w) (OKill ch)) ch);
        match goal with |- context [end_flags ?x] => destruct (end_flags_abs x) as (Ef & Ec & Ep & Eh & Ee & _) end;
        cbn [cs prev hook ended raise out emit]; rewrite Ec, Ep, Eh, Ee, effects_raise, Ef; close C.
    - (* TryRestart *)
      destruct (cs w) as [|ch|st] eqn:C; [close C | | close C].
      unfold do_kill_wait, answers_of. cbn [a_kill a_status]. rewrite C. destruct (kill_ok E (nkills w)); cbn zeta; [|close C].
      unfold spec_spawn. cbn [s_hook s_cur a_spawn a_child].
      destruct (child_exited (out (bump_kills w) (OKill ch)) ch);
        match goal with |- context [do_spawn E (end_flags (save_prev ?x))] =>
          destruct (end_flags_abs (save_prev x)) as (Ef & Ec & Ep & Eh & Ee & Ea & Ek);
          destruct (do_spawn_spec (end_flags (save_prev x))) as (A & B & H & En & Eff) end;
        rewrite effects_raise, Eff; cbn [cs prev hook ended raise out emit]; rewrite A, B, H, En, Ea, Ek, Ec, Ep, Eh, Ee, Ef;
        cbn [cs prev hook ended attempts kids obs effects eff_of save_prev set_cs set_prev out emit bump_kills set_kids reset_cs s_reset];
        rewrite ?update_nth_length; destruct (spawn_ok E (attempts w)); rewrite <- ?app_assoc;
        (split; [reflexivity|]); (split; [reflexivity|]); (split; [intros _; eexists; left; reflexivity | discriminate]).
    - (* Signal *)
      destruct (cs w) as [|ch|st] eqn:C; [close C | | close C].
      unfold do_signal, answers_of. cbn [a_signal]. destruct (signal_ok E (nsignals w)); cbn zeta; [|cbn [fst]; close C].
      destruct (child_exited (out (bump_signals w) (OSignal ch sig)) ch); [|destruct (react E ch sig)]; cbn [fst]; close C.
    - (* Delete *) close I.
    - (* NextEnding *)
      cbn [v_wait_idle fixed]. destruct (cs w) as [|ch|st] eqn:C; close C.
    - close I.
    - close I.
    - close I.
  Qed.

  Lemma do_kill_wait_kids_len w ch : List.length (kids (fst (do_kill_wait E w ch))) = List.length (kids w).
  Proof.
    unfold do_kill_wait. destruct (kill_ok E (nkills w)); cbn zeta; [|reflexivity].
    destruct (child_exited (out (bump_kills w) (OKill ch)) ch); cbn [fst kids out emit set_cs set_kids bump_kills]; rewrite ?update_nth_length; reflexivity.
  Qed.

  (* restart always leaves a fresh process running *)
  Lemma restart_fresh w ch f1 f2 :
    cs w = Running ch -> kill_ok E (nkills w) = true ->
    let w1 := handle E fixed w CStop f1 in
    spawn_ok E (attempts w1) = true ->
    cs (handle E fixed w1 CStart f2) = Running (List.length (kids w)).
  Proof.
    intros C K w1 S.
    assert (exists st, cs w1 = Finished st /\ List.length (kids w1) = List.length (kids w)) as (st & C1 & L1).
    { unfold w1. cbn [handle]. rewrite C. pose proof (do_kill_wait_kids_len w ch) as L.
      assert (snd (do_kill_wait E w ch) = true /\ exists st, cs (fst (do_kill_wait E w ch)) = Finished st) as [Ok [st Cs]].
      { unfold do_kill_wait. rewrite K. cbn zeta. destruct (child_exited _ ch); split; try reflexivity; eexists; reflexivity. }
      destruct (do_kill_wait E w ch) as [wk ok]. cbn [fst snd] in *. rewrite Ok.
      destruct (end_flags_abs wk) as (_ & Ec & _ & _ & _ & _ & Ek). exists st.
      cbn [cs kids raise out emit]. rewrite Ec, Ek. split; assumption. }
    cbn [handle]. rewrite C1. pose proof (do_spawn_spec (save_prev w1)) as D. cbn zeta in D. destruct D as (A & _).
    cbn [cs raise out emit]. rewrite A. cbn [attempts kids save_prev set_cs set_prev]. rewrite S, L1. reflexivity.
  Qed.
End Env.
