(* C08, job level: once a Delete is queued (the graceful quit sends GracefulStop; Delete to every job), the job
   task ends within the grace periods then in effect, whatever the job is doing, for every child behaviour and
   fault pattern and every choice of select!, provided the runtime is eager: the clock only moves when the task
   has nothing to do, and a sleeping task is woken at its wake-up instant. *)
From Coq Require Import List Arith NArith Bool Lia.
From WX Require Import Job.JobModel Job.JobInv.
Import ListNotations.
Open Scope N_scope.

(* ---- the part of the world that decides how long the task can still take *)
Definition sk (w : world) := (now w, timer w, on_end_restart w, (qu w, qh w, qn w), busy_until w, ended w).

Definition cost (c : ctrl) : N :=
  match c with CGracefulStop _ g | CTryGracefulRestart _ g => g | CAsyncFunc _ d => d | _ => 0 end.
Definition qcost (q : list (ctrl * flag)) : N := fold_right (fun cf a => cost (fst cf) + a) 0 q.
Definition rem_timer (w : world) : N := match timer w with Some (d, _, _) => d - now w | None => 0 end.
(* the grace periods (and hook sleeps) then in effect *)
Definition slack (w : world) : N :=
  rem_timer w + (busy_until w - now w) + qcost (qu w) + qcost (qh w) + qcost (qn w).

Definition mu0 (w : world) : nat :=
  6 * (List.length (qu w) + List.length (qh w) + List.length (qn w))
  + (match timer w with Some _ => 2 | None => 0 end) + (match on_end_restart w with Some _ => 2 | None => 0 end).
Definition rb (w : world) : nat := match cs w with Running _ => 1 | _ => 0 end.
Definition mu (w : world) : nat := mu0 w + rb w.

Lemma sk_slack w w' : sk w' = sk w -> slack w' = slack w /\ mu0 w' = mu0 w /\ now w' = now w /\ ended w' = ended w /\ qn w' = qn w.
Proof.
  unfold sk, slack, mu0, rem_timer. intro H. injection H as A B C D F G H' I.
  rewrite A, B, C, D, F, G, H', I. repeat split; reflexivity.
Qed.

Lemma rb_le w : (rb w <= 1)%nat.
Proof. unfold rb. destruct (cs w); lia. Qed.

Lemma raise_sk w f : sk (raise w f) = sk w.
Proof. reflexivity. Qed.
Lemma raise_all_sk w fs : sk (raise_all w fs) = sk w /\ cs (raise_all w fs) = cs w.
Proof.
  unfold raise_all. revert w. induction fs as [|f r IH]; intro w; cbn [fold_left]; [split; reflexivity|].
  destruct (IH (raise w f)) as [A B]. rewrite A, B. split; reflexivity.
Qed.
Lemma end_flags_sk w : sk (end_flags w) = sk w /\ cs (end_flags w) = cs w.
Proof. unfold end_flags. destruct (raise_all_sk w (on_end w)) as [A B]. split; [exact A | exact B]. Qed.
Lemma save_prev_sk w : sk (save_prev w) = sk w.
Proof. reflexivity. Qed.

Section Env.
  Variable E : env.
  Notation V := fixed.

  Lemma do_spawn_sk w : sk (fst (do_spawn E w)) = sk w.
  Proof. unfold do_spawn. destruct (hook w); cbn zeta; destruct (spawn_ok E _); reflexivity. Qed.
  Lemma do_signal_sk w c s : sk (fst (do_signal E w c s)) = sk w /\ cs (fst (do_signal E w c s)) = cs w.
  Proof.
    unfold do_signal. cbn zeta. destruct (signal_ok E _); [|split; reflexivity].
    cbn [fst]. destruct (child_exited _ c); [split; reflexivity|]. destruct (react E c s); split; reflexivity.
  Qed.
  Lemma do_kill_wait_sk w c : sk (fst (do_kill_wait E w c)) = sk w.
  Proof. unfold do_kill_wait. cbn zeta. destruct (kill_ok E _); [|reflexivity]. cbn [fst]. destruct (child_exited _ c); reflexivity. Qed.
  Lemma do_kill_wait_cs w c : snd (do_kill_wait E w c) = true -> forall c', cs (fst (do_kill_wait E w c)) <> Running c'.
  Proof. unfold do_kill_wait. cbn zeta. destruct (kill_ok E _); [|discriminate]. intros _ c'. cbn [fst]. destruct (child_exited _ c); discriminate. Qed.

  (* what one control can do to the skeleton *)
  Inductive eff : Set := ESame | ETimer (g : N) (f : flag) (r : bool) | EClear | EEnd | EBusy (d : N).
  Definition apply_eff (e : eff) (w : world) :=
    match e with
    | ESame => sk w
    | ETimer g f r => (now w, Some (now w + g, f, r), (if r then Some f else on_end_restart w), (qu w, qh w, qn w), busy_until w, ended w)
    | EClear => (now w, timer w, None, (qu w, qh w, qn w), busy_until w, ended w)
    | EEnd => (now w, timer w, on_end_restart w, (qu w, qh w, qn w), busy_until w, true)
    | EBusy d => (now w, timer w, on_end_restart w, (qu w, qh w, qn w), now w + d, ended w)
    end.
  Definition eff_ok (c : ctrl) (f : flag) (w : world) (e : eff) : Prop :=
    match e with
    | ESame => c <> CDelete /\ c <> CContinueTGR /\ (forall m d, c <> CAsyncFunc m d)
    | ETimer g f' r => f' = f /\ (exists ch, cs w = Running ch) /\
                       ((r = false /\ exists s, c = CGracefulStop s g) \/ (r = true /\ exists s, c = CTryGracefulRestart s g))
    | EClear => c = CContinueTGR
    | EEnd => c = CDelete
    | EBusy d => exists m, c = CAsyncFunc m d
    end.

  Ltac pair_sk K lem :=
    let H := fresh "S" in
    pose proof lem as H; rewrite K in H; cbn [fst snd] in H.

  Lemma handle_sk w c f : exists e, eff_ok c f w e /\ sk (handle E V w c f) = apply_eff e w.
  Proof.
    destruct c; cbn [handle].
    - (* Start *) exists ESame. split; [repeat split; intros; discriminate|]. cbn [apply_eff].
      destruct (cs w); rewrite ?raise_sk, ?do_spawn_sk; reflexivity.
    - (* Stop *) exists ESame. split; [repeat split; intros; discriminate|]. cbn [apply_eff].
      destruct (cs w) as [| ch |]; try reflexivity.
      destruct (do_kill_wait E w ch) as [w1 ok] eqn:K. pair_sk K (do_kill_wait_sk w ch).
      destruct ok; rewrite raise_sk; [rewrite (proj1 (end_flags_sk w1))|]; exact S.
    - (* GracefulStop *)
      destruct (cs w) as [| ch |] eqn:C; try (exists ESame; split; [repeat split; intros; discriminate | reflexivity]).
      destruct (do_signal E w ch sig) as [w1 ok] eqn:K. pair_sk K (do_signal_sk w ch sig). destruct S as [S _].
      destruct ok.
      + exists (ETimer grace f false). split; [split; [reflexivity|]; split; [exists ch; exact C|]; left; split; [reflexivity | eexists; reflexivity]|].
        unfold sk in *. cbn [apply_eff]. injection S as A B C' D F G H I. cbn [now timer on_end_restart qu qh qn busy_until ended set_timer].
        rewrite A, C', D, F, G, H, I. reflexivity.
      + exists ESame. split; [repeat split; intros; discriminate|]. rewrite raise_sk. exact S.
    - (* TryRestart *) exists ESame. split; [repeat split; intros; discriminate|]. cbn [apply_eff].
      destruct (cs w) as [| ch |]; try reflexivity.
      destruct (do_kill_wait E w ch) as [w1 ok] eqn:K. pair_sk K (do_kill_wait_sk w ch).
      destruct ok; rewrite raise_sk; [rewrite do_spawn_sk, (proj1 (end_flags_sk _)), save_prev_sk|]; exact S.
    - (* TryGracefulRestart *)
      destruct (cs w) as [| ch |] eqn:C; try (exists ESame; split; [repeat split; intros; discriminate | reflexivity]).
      destruct (do_signal E w ch sig) as [w1 ok] eqn:K. pair_sk K (do_signal_sk w ch sig). destruct S as [S _].
      destruct ok.
      + exists (ETimer grace f true). split; [split; [reflexivity|]; split; [exists ch; exact C|]; right; split; [reflexivity | eexists; reflexivity]|].
        unfold sk in *. cbn [apply_eff]. injection S as A B C' D F G H I. cbn [now timer on_end_restart qu qh qn busy_until ended set_timer set_oer].
        rewrite A, D, F, G, H, I. reflexivity.
      + exists ESame. split; [repeat split; intros; discriminate|]. rewrite raise_sk. exact S.
    - (* ContinueTGR *) exists EClear. split; [reflexivity|]. cbn [apply_eff]. change (v_clear_restart fixed) with true. cbv beta iota zeta.
      assert (cs (set_oer w None) = cs w) as CC by reflexivity.
      assert (sk (set_oer w None) = (now w, timer w, None, (qu w, qh w, qn w), busy_until w, ended w)) as S0 by reflexivity.
      destruct (cs (set_oer w None)) as [| ch |].
      + rewrite raise_sk, do_spawn_sk, save_prev_sk. exact S0.
      + destruct (do_kill_wait E (set_oer w None) ch) as [w1 ok] eqn:K. pair_sk K (do_kill_wait_sk (set_oer w None) ch).
        destruct ok; rewrite raise_sk; [rewrite do_spawn_sk, save_prev_sk, (proj1 (end_flags_sk _))|]; rewrite S; exact S0.
      + rewrite raise_sk, do_spawn_sk, save_prev_sk. exact S0.
    - (* Signal *) exists ESame. split; [repeat split; intros; discriminate|]. cbn [apply_eff].
      destruct (cs w) as [| ch |]; try reflexivity. rewrite raise_sk. apply do_signal_sk.
    - (* Delete *) exists EEnd. split; reflexivity.
    - (* NextEnding *) exists ESame. split; [repeat split; intros; discriminate|]. cbn [apply_eff]. change (v_wait_idle fixed) with true. destruct (cs w); reflexivity.
    - (* SyncFunc *) exists ESame. split; [repeat split; intros; discriminate|]. reflexivity.
    - (* AsyncFunc *) exists (EBusy dur). split; [eexists; reflexivity | reflexivity].
    - exists ESame. split; [repeat split; intros; discriminate|]. reflexivity.
    - exists ESame. split; [repeat split; intros; discriminate|]. reflexivity.
  Qed.
End Env.

Section Progress.
  Variable E : env.
  Notation V := fixed.

  Definition has_delete (w : world) : Prop := exists f, In (CDelete, f) (qn w).
  Definition Pre (w : world) : Prop := ended w = false /\ has_delete w.
  Definition idle (w : world) : Prop := busy_until w <= now w.

  Lemma handle_progress w c f :
    idle w ->
    let X := handle E V w c f in
    now X = now w /\ slack X <= slack w + cost c /\ (mu0 X <= mu0 w + 4)%nat /\
    ((c = CStop \/ c = CContinueTGR) -> slack X <= slack w /\ (mu0 X <= mu0 w)%nat) /\
    ((ended X = ended w /\ qn X = qn w /\ c <> CDelete) \/ (c = CDelete /\ ended X = true)).
  Proof.
    intros I X. destruct (handle_sk E w c f) as (e & OK & S). fold X in S.
    unfold idle in I. unfold slack, mu0, rem_timer, sk in *.
    assert (forall P Q : Prop, Q -> P \/ Q) as orr by (intros; right; assumption).
    destruct e; cbn [apply_eff eff_ok] in *; injection S as A B C D F G H J; rewrite A, B, C, D, F, G, H, J.
    - destruct OK as (N1 & N2 & N3). split; [reflexivity|]. split; [lia|]. split; [lia|]. split; [intros _; split; lia|].
      left. repeat split. exact N1.
    - destruct OK as (-> & _ & [(-> & s & ->) | (-> & s & ->)]); cbn [cost];
        (split; [reflexivity|]); (split; [destruct (timer w) as [[[d ?] ?]|]; lia|]);
        (split; [destruct (timer w) as [[[d ?] ?]|]; destruct (on_end_restart w); lia|]);
        (split; [intros [K|K]; discriminate|]); left; repeat split; discriminate.
    - subst c. cbn [cost]. split; [reflexivity|]. split; [lia|]. split; [destruct (on_end_restart w); lia|].
      split; [intros _; split; [lia | destruct (on_end_restart w); lia]|]. left. repeat split. discriminate.
    - subst c. cbn [cost]. split; [reflexivity|]. split; [lia|]. split; [lia|]. split; [intros [K|K]; discriminate|].
      right. split; reflexivity.
    - destruct OK as (m & ->). cbn [cost]. split; [reflexivity|]. split; [lia|]. split; [lia|]. split; [intros [K|K]; discriminate|].
      left. repeat split. discriminate.
  Qed.

  Lemma handle_wait_sk w ch :
    cs w = Running ch ->
    sk (handle_wait E V w) = (now w, None, None, (qu w, qh w, qn w), busy_until w, ended w) /\
    (on_end_restart w = None -> rb (handle_wait E V w) = 0%nat).
  Proof.
    intro C. unfold handle_wait. rewrite C.
    set (w1 := out (set_cs w (Finished (child_status w ch))) (OReap ch (child_status w ch))).
    assert (sk w1 = sk w /\ cs w1 = Finished (child_status w ch)) as [S1 C1] by (split; reflexivity).
    set (w2 := match timer w1 with
               | Some (_, f, is_restart) => let w' := set_timer w1 None in if v_timer_flag V && negb is_restart then raise w' f else w'
               | None => w1 end).
    assert (sk w2 = (now w, None, on_end_restart w, (qu w, qh w, qn w), busy_until w, ended w) /\ cs w2 = cs w1) as [S2 C2].
    { unfold w2. assert (timer w1 = timer w) as T by reflexivity.
      destruct (timer w1) as [[[d f] r]|] eqn:T1.
      - cbn zeta. destruct (v_timer_flag V && negb r); split; reflexivity.
      - split; [|reflexivity]. change (sk w1) with (sk w). unfold sk. rewrite <- T. reflexivity. }
    rewrite C1 in C2. clearbody w2. clear S1 C1. clearbody w1.
    destruct (end_flags_sk w2) as [S3 C3]. rewrite S2 in S3.
    assert (on_end_restart (end_flags w2) = on_end_restart w) as O3 by (unfold sk in S3; injection S3 as _ _ O _; exact O).
    rewrite O3. destruct (on_end_restart w) as [f|] eqn:O.
    - destruct (do_spawn E (save_prev (set_oer (end_flags w2) None))) as [w4 ok] eqn:K.
      pose proof (do_spawn_sk E (save_prev (set_oer (end_flags w2) None))) as S4. rewrite K in S4. cbn [fst] in S4.
      rewrite save_prev_sk in S4.
      assert (sk (set_oer (end_flags w2) None) = (now w, None, None, (qu w, qh w, qn w), busy_until w, ended w)) as S5.
      { assert (forall x, sk (set_oer x None) = let '(n, t, _, q, b, e) := sk x in (n, t, None, q, b, e)) as L by reflexivity.
        rewrite L, S3. reflexivity. }
      rewrite S5 in S4. split; [|intro; discriminate].
      change (v_restart_fail_flag V) with true. destruct ok; rewrite raise_sk; exact S4.
    - split; [exact S3|]. intros _. unfold rb. rewrite C3, C2. reflexivity.
  Qed.
End Progress.

Section Eager.
  Variable E : env.
  Notation V := fixed.

  Definition src_ok (w : world) (s : src) : Prop :=
    match s with
    | SWait => exists c, cs w = Running c
    | STimer => exists d f r, timer w = Some (d, f, r) /\ d <= now w
    | SUrgent => qu w <> []
    | SHigh => qh w <> []
    | SNormal => qn w <> [] /\ timer w = None
    end.

  Lemma nonempty_ne {A} (l : list A) : nonempty l = true -> l <> [].
  Proof. destruct l; [discriminate | discriminate]. Qed.

  Lemma recv_parked_sound w s : In s (recv_parked w) -> src_ok w s.
  Proof.
    unfold recv_parked, timer_due. intro H.
    apply in_app_or in H. destruct H as [H|H].
    { destruct (timer w) as [[[d f] r]|] eqn:T; [|contradiction].
      destruct (d <=? now w) eqn:L; [|contradiction]. destruct H as [<-|[]]. exists d, f, r. split; [exact T | apply N.leb_le; exact L]. }
    apply in_app_or in H. destruct H as [H|H].
    { destruct (nonempty (qu w)) eqn:Q; [|contradiction]. destruct H as [<-|[]]. apply nonempty_ne; exact Q. }
    apply in_app_or in H. destruct H as [H|H].
    { destruct (nonempty (qh w)) eqn:Q; [|contradiction]. destruct H as [<-|[]]. apply nonempty_ne; exact Q. }
    destruct (timer w) eqn:T; [contradiction|]. destruct (nonempty (qn w)) eqn:Q; [|contradiction].
    destruct H as [<-|[]]. split; [apply nonempty_ne; exact Q | exact T].
  Qed.

  Lemma recv_fresh_sound w s : recv_fresh w = Some s -> src_ok w s.
  Proof.
    unfold recv_fresh, timer_due.
    destruct (timer w) as [[[d f] r]|] eqn:T.
    - destruct (d <=? now w) eqn:L.
      + intro H. injection H as <-. exists d, f, r. split; [exact T | apply N.leb_le; exact L].
      + destruct (nonempty (qu w)) eqn:Q; [intro H; injection H as <-; apply nonempty_ne; exact Q|].
        destruct (nonempty (qh w)) eqn:Q2; [intro H; injection H as <-; apply nonempty_ne; exact Q2|]. discriminate.
    - destruct (nonempty (qu w)) eqn:Q; [intro H; injection H as <-; apply nonempty_ne; exact Q|].
      destruct (nonempty (qh w)) eqn:Q2; [intro H; injection H as <-; apply nonempty_ne; exact Q2|].
      destruct (nonempty (qn w)) eqn:Q3; [|discriminate]. intro H; injection H as <-. split; [apply nonempty_ne; exact Q3 | exact T].
  Qed.

  Lemma enabled_sound w s : In s (enabled V w) -> ended w = false /\ idle w /\ src_ok w s.
  Proof.
    unfold enabled. destruct (ended w); [contradiction|]. destruct (now w <? busy_until w) eqn:B; [contradiction|].
    apply N.ltb_ge in B. intro H. split; [reflexivity|]. split; [exact B|].
    apply in_app_or in H. destruct H as [H|H].
    - unfold wait_ready in H. destruct (cs w) eqn:C; try contradiction. destruct (child_exited w child); [|contradiction].
      destruct H as [<-|[]]. exists child. exact C.
    - destruct (parked w).
      + change (v_biased V) with true in H. cbv iota in H. destruct (recv_parked w) as [|s0 r] eqn:R; [contradiction|].
        destruct H as [<-|[]]. apply recv_parked_sound. rewrite R. left. reflexivity.
      + destruct (recv_fresh w) eqn:R; [|contradiction]. destruct H as [<-|[]]. apply recv_fresh_sound. exact R.
  Qed.

  Lemma tail_sk w : sk (settle_park (finish_end w)) = sk w /\ cs (settle_park (finish_end w)) = cs w.
  Proof.
    assert (sk (finish_end w) = sk w /\ cs (finish_end w) = cs w) as [A B].
    { unfold finish_end. destruct (ended w); [|split; reflexivity]. destruct (cs w) eqn:C; (split; [reflexivity | exact C]). }
    assert (forall x, sk (settle_park x) = sk x /\ cs (settle_park x) = cs x) as L.
    { intro x. unfold settle_park. destruct (ended x); [split; reflexivity|]. destruct (now x <? busy_until x); split; reflexivity. }
    destruct (L (finish_end w)) as [C D]. rewrite C, D. split; assumption.
  Qed.

  Lemma qcost_cons c f r : qcost ((c, f) :: r) = cost c + qcost r.
  Proof. reflexivity. Qed.

  (* one pop: the world handed to `handle` -- time, potential and measure *)
  Lemma pop_progress_core w w0 c f :
    idle w ->
    now w0 = now w -> timer w0 = timer w -> on_end_restart w0 = on_end_restart w -> busy_until w0 = busy_until w -> ended w0 = ended w ->
    qcost (qu w0) + qcost (qh w0) + qcost (qn w0) + cost c = qcost (qu w) + qcost (qh w) + qcost (qn w) ->
    (List.length (qu w0) + List.length (qh w0) + List.length (qn w0) + 1 = List.length (qu w) + List.length (qh w) + List.length (qn w))%nat ->
    let X := settle_park (finish_end (handle E V w0 c f)) in
    now X = now w /\ slack X <= slack w /\ (mu X < mu w)%nat.
  Proof.
    intros I A B C D F QC QL X.
    assert (idle w0) as I0 by (unfold idle in *; rewrite A, D; exact I).
    destruct (handle_progress E w0 c f I0) as (P1 & P2 & P3 & _ & _).
    destruct (tail_sk (handle E V w0 c f)) as [TS TC]. fold X in TS, TC.
    destruct (sk_slack _ _ TS) as (S1 & S2 & S3 & S4 & S5).
    assert (slack w0 + cost c = slack w) as SL by (unfold slack, rem_timer; rewrite A, B, D; lia).
    assert (mu0 w0 + 6 = mu0 w)%nat as ML by (unfold mu0; rewrite B, C; lia).
    split; [rewrite S3, P1; exact A|]. split; [rewrite S1; lia|].
    unfold mu; rewrite S2; pose proof (rb_le X); lia.
  Qed.

  (* one pop: the world handed to `handle` *)
  Lemma pop_progress w w0 c f :
    idle w -> Pre w ->
    now w0 = now w -> timer w0 = timer w -> on_end_restart w0 = on_end_restart w -> busy_until w0 = busy_until w -> ended w0 = ended w ->
    qcost (qu w0) + qcost (qh w0) + qcost (qn w0) + cost c = qcost (qu w) + qcost (qh w) + qcost (qn w) ->
    (List.length (qu w0) + List.length (qh w0) + List.length (qn w0) + 1 = List.length (qu w) + List.length (qh w) + List.length (qn w))%nat ->
    (qn w0 = qn w \/ (qn w = (c, f) :: qn w0)) ->
    let X := settle_park (finish_end (handle E V w0 c f)) in
    now X = now w /\ slack X <= slack w /\ (mu X < mu w)%nat /\ (ended X = true \/ Pre X).
  Proof.
    intros I [NE [fd HD]] A B C D F QC QL QN X.
    assert (idle w0) as I0 by (unfold idle in *; rewrite A, D; exact I).
    destruct (handle_progress E w0 c f I0) as (P1 & P2 & P3 & _ & P5).
    destruct (tail_sk (handle E V w0 c f)) as [TS TC]. fold X in TS, TC.
    destruct (sk_slack _ _ TS) as (S1 & S2 & S3 & S4 & S5).
    assert (slack w0 + cost c = slack w) as SL by (unfold slack, rem_timer; rewrite A, B, D; lia).
    assert (mu0 w0 + 6 = mu0 w)%nat as ML by (unfold mu0; rewrite B, C; lia).
    split; [rewrite S3, P1; exact A|]. split; [rewrite S1; lia|].
    split; [unfold mu; rewrite S2; pose proof (rb_le X); lia|].
    destruct P5 as [(P5a & P5b & P5c) | (P5a & P5b)]; [|left; rewrite S4; exact P5b].
    right. split; [rewrite S4, P5a, F; exact NE|]. unfold has_delete. rewrite S5, P5b.
    destruct QN as [QN|QN]; [rewrite QN; exists fd; exact HD|].
    rewrite QN in HD. destruct HD as [HD|HD]; [injection HD as -> _; contradiction | exists fd; exact HD].
  Qed.

  (* every step of the task consumes measure and never raises the potential, whatever is queued *)
  Lemma task_step_measure w s :
    In s (enabled V w) ->
    let X := task_step E V w s in
    now X = now w /\ slack X <= slack w /\ (mu X < mu w)%nat.
  Proof.
    intros En. destruct (enabled_sound w s En) as (NE & I & OK). unfold task_step.
    destruct s; cbn [src_ok] in OK.
    - destruct OK as [ch C]. destruct (handle_wait_sk E w ch C) as [HS HR].
      destruct (tail_sk (handle_wait E V w)) as [TS TC]. rewrite HS in TS.
      set (X := settle_park (finish_end (handle_wait E V w))) in *. cbv zeta.
      assert (now X = now w /\ busy_until X = busy_until w /\ timer X = None /\ on_end_restart X = None /\ qu X = qu w /\ qh X = qh w /\ qn X = qn w /\ ended X = ended w)
        as (A & B & T & O & Q1 & Q2 & Q3 & Q4) by (unfold sk in TS; injection TS as ? ? ? ? ? ? ? ?; repeat split; assumption).
      split; [exact A|]. split; [unfold slack, rem_timer; rewrite A, B, T, Q1, Q2, Q3; lia|].
      unfold mu, mu0. rewrite T, O, Q1, Q2, Q3. assert (rb w = 1%nat) as RW by (unfold rb; rewrite C; reflexivity). rewrite RW.
      destruct (on_end_restart w) eqn:OW.
      + pose proof (rb_le X). destruct (timer w); lia.
      + assert (rb X = 0%nat) as RX by (unfold rb; rewrite TC; specialize (HR eq_refl); unfold rb in HR; exact HR). rewrite RX. destruct (timer w); lia.
    - destruct OK as (d & f & r & T & L). rewrite T. cbv zeta.
      set (c := if r then CContinueTGR else CStop). set (w0 := set_timer w None).
      assert (idle w0) as I0 by exact I.
      destruct (handle_progress E w0 c f I0) as (P1 & _ & _ & P4 & _).
      assert (c = CStop \/ c = CContinueTGR) as CC by (unfold c; destruct r; [right | left]; reflexivity).
      destruct (P4 CC) as [P4a P4b].
      destruct (tail_sk (handle E V w0 c f)) as [TS TC].
      set (X := settle_park (finish_end (handle E V w0 c f))) in *.
      destruct (sk_slack _ _ TS) as (S1 & S2 & S3 & S4 & S5).
      assert (slack w0 <= slack w) as SL by (unfold slack, rem_timer, w0; cbn [timer set_timer now busy_until qu qh qn]; rewrite T; lia).
      assert (mu0 w0 + 2 = mu0 w)%nat as ML by (unfold mu0, w0; cbn [timer set_timer on_end_restart qu qh qn]; rewrite T; lia).
      split; [rewrite S3, P1; reflexivity|]. split; [rewrite S1; lia|]. unfold mu; rewrite S2; pose proof (rb_le X); lia.
    - destruct (qu w) as [|[c f] r] eqn:Q; [contradiction|]. cbn [pop].
      apply pop_progress_core; try assumption; try reflexivity.
      + cbn [qu qh qn out emit set_queues]. rewrite Q, qcost_cons. lia.
      + cbn [qu qh qn out emit set_queues]. rewrite Q. cbn [List.length]. lia.
    - destruct (qh w) as [|[c f] r] eqn:Q; [contradiction|]. cbn [pop].
      apply pop_progress_core; try assumption; try reflexivity.
      + cbn [qu qh qn out emit set_queues]. rewrite Q, qcost_cons. lia.
      + cbn [qu qh qn out emit set_queues]. rewrite Q. cbn [List.length]. lia.
    - destruct OK as [OK _]. destruct (qn w) as [|[c f] r] eqn:Q; [contradiction|]. cbn [pop].
      apply pop_progress_core; try assumption; try reflexivity.
      + cbn [qu qh qn out emit set_queues]. rewrite Q, qcost_cons. lia.
      + cbn [qu qh qn out emit set_queues]. rewrite Q. cbn [List.length]. lia.
  Qed.

  Lemma task_step_progress w s :
    In s (enabled V w) -> Pre w ->
    let X := task_step E V w s in
    now X = now w /\ slack X <= slack w /\ (mu X < mu w)%nat /\ (ended X = true \/ Pre X).
  Proof.
    intros En P. destruct (enabled_sound w s En) as (NE & I & OK). unfold task_step.
    destruct s; cbn [src_ok] in OK.
    - (* process end *)
      destruct OK as [ch C]. destruct (handle_wait_sk E w ch C) as [HS HR].
      destruct (tail_sk (handle_wait E V w)) as [TS TC]. rewrite HS in TS.
      set (X := settle_park (finish_end (handle_wait E V w))) in *. cbv zeta.
      assert (now X = now w /\ busy_until X = busy_until w /\ timer X = None /\ on_end_restart X = None /\ qu X = qu w /\ qh X = qh w /\ qn X = qn w /\ ended X = ended w)
        as (A & B & T & O & Q1 & Q2 & Q3 & Q4) by (unfold sk in TS; injection TS as ? ? ? ? ? ? ? ?; repeat split; assumption).
      split; [exact A|]. split; [unfold slack, rem_timer; rewrite A, B, T, Q1, Q2, Q3; lia|].
      split.
      + unfold mu, mu0. rewrite T, O, Q1, Q2, Q3. assert (rb w = 1%nat) as RW by (unfold rb; rewrite C; reflexivity). rewrite RW.
        destruct (on_end_restart w) eqn:OW.
        * pose proof (rb_le X). destruct (timer w); lia.
        * assert (rb X = 0%nat) as RX by (unfold rb; rewrite TC; specialize (HR eq_refl); unfold rb in HR; exact HR). rewrite RX. destruct (timer w); lia.
      + right. destruct P as [_ [fd HD]]. split; [rewrite Q4; exact NE | exists fd; rewrite Q3; exact HD].
    - (* timer *)
      destruct OK as (d & f & r & T & L). rewrite T. cbv zeta.
      set (c := if r then CContinueTGR else CStop).
      set (w0 := set_timer w None).
      assert (idle w0) as I0 by exact I.
      destruct (handle_progress E w0 c f I0) as (P1 & _ & _ & P4 & P5).
      assert (c = CStop \/ c = CContinueTGR) as CC by (unfold c; destruct r; [right | left]; reflexivity).
      destruct (P4 CC) as [P4a P4b].
      destruct (tail_sk (handle E V w0 c f)) as [TS TC].
      set (X := settle_park (finish_end (handle E V w0 c f))) in *.
      destruct (sk_slack _ _ TS) as (S1 & S2 & S3 & S4 & S5).
      assert (slack w0 <= slack w) as SL by (unfold slack, rem_timer, w0; cbn [timer set_timer now busy_until qu qh qn]; rewrite T; lia).
      assert (mu0 w0 + 2 = mu0 w)%nat as ML by (unfold mu0, w0; cbn [timer set_timer on_end_restart qu qh qn]; rewrite T; lia).
      split; [rewrite S3, P1; reflexivity|]. split; [rewrite S1; lia|].
      split; [unfold mu; rewrite S2; pose proof (rb_le X); lia|].
      destruct P5 as [(P5a & P5b & _) | (P5a & _)]; [|exfalso; destruct CC as [K|K]; rewrite K in P5a; discriminate].
      right. destruct P as [_ [fd HD]]. split; [rewrite S4, P5a; exact NE | exists fd; rewrite S5, P5b; exact HD].
    - (* urgent *)
      destruct (qu w) as [|[c f] r] eqn:Q; [contradiction|]. cbn [pop].
      apply pop_progress; try assumption; try reflexivity.
      + cbn [qu qh qn out emit set_queues]. rewrite Q, qcost_cons. lia.
      + cbn [qu qh qn out emit set_queues]. rewrite Q. cbn [List.length]. lia.
      + left. reflexivity.
    - (* high *)
      destruct (qh w) as [|[c f] r] eqn:Q; [contradiction|]. cbn [pop].
      apply pop_progress; try assumption; try reflexivity.
      + cbn [qu qh qn out emit set_queues]. rewrite Q, qcost_cons. lia.
      + cbn [qu qh qn out emit set_queues]. rewrite Q. cbn [List.length]. lia.
      + left. reflexivity.
    - (* normal *)
      destruct OK as [OK _]. destruct (qn w) as [|[c f] r] eqn:Q; [contradiction|]. cbn [pop].
      apply pop_progress; try assumption; try reflexivity.
      + cbn [qu qh qn out emit set_queues]. rewrite Q, qcost_cons. lia.
      + cbn [qu qh qn out emit set_queues]. rewrite Q. cbn [List.length]. lia.
      + right. cbn [qn out emit set_queues]. exact Q.
  Qed.
End Eager.

Section Sched.
  Variable E : env.
  Notation V := fixed.

  (* the instants at which a sleeping task is woken *)
  Definition cands (w : world) : list N :=
    (match timer w with Some (d, _, _) => [d] | None => [] end) ++ [busy_until w] ++
    (match cs w with
     | Running c => match nth_error (kids w) c with
                    | Some k => match c_exit_at k with Some t => [t] | None => [] end
                    | None => [] end
     | _ => [] end).
  Definition future (w : world) : list N := filter (fun t => now w <? t) (cands w).
  Definition next_event (w : world) : option N :=
    match future w with [] => None | t :: r => Some (fold_left N.min r t) end.
  Definition nu (w : world) : nat := List.length (future w).

  Lemma fold_min_spec r : forall t, let m := fold_left N.min r t in (m = t \/ In m r) /\ m <= t /\ forall x, In x r -> m <= x.
  Proof.
    induction r as [|y r IH]; intro t; cbn [fold_left].
    - split; [left; reflexivity|]. split; [lia | intros x []].
    - destruct (IH (N.min t y)) as (A & B & C). cbv zeta in *. split; [|split].
      + destruct A as [A|A]; [|right; right; exact A]. rewrite A. destruct (N.min_spec t y) as [[_ M]|[_ M]]; rewrite M; [left | right; left]; reflexivity.
      + lia.
      + intros x [<-|Hx]; [lia | apply C; exact Hx].
  Qed.

  Lemma next_event_spec w t : next_event w = Some t -> In t (future w) /\ forall x, In x (future w) -> t <= x.
  Proof.
    unfold next_event. destruct (future w) as [|a r]; [discriminate|]. intro H. injection H as <-.
    destruct (fold_min_spec r a) as (A & B & C). cbv zeta in *. split.
    - destruct A as [A|A]; [left; symmetry; exact A | right; exact A].
    - intros x [<-|Hx]; [exact B | apply C; exact Hx].
  Qed.

  Lemma filter_len_le {A} (p : A -> bool) (l : list A) : (List.length (filter p l) <= List.length l)%nat.
  Proof. induction l as [|x l IH]; cbn [filter List.length]; [lia|]. destruct (p x); cbn [List.length]; lia. Qed.

  Lemma nu_le w : (nu w <= 3)%nat.
  Proof.
    unfold nu, future. etransitivity; [apply filter_len_le|]. unfold cands. rewrite !app_length.
    destruct (timer w) as [[[? ?] ?]|]; destruct (cs w) as [|c|]; cbn [List.length]; try lia.
    all: destruct (nth_error (kids w) c) as [k|]; [destruct (c_exit_at k)|]; cbn [List.length]; lia.
  Qed.

  Lemma filter_shrinks (l : list N) a t : a < t -> In t l ->
    Nat.lt (List.length (filter (fun x => t <? x) l)) (List.length (filter (fun x => a <? x) l)).
  Proof.
    intros L. induction l as [|y l IH]; [intros []|]. intros [->|Hin]; cbn [filter].
    - assert ((t <? t) = false) as -> by (apply N.ltb_ge; lia). assert ((a <? t) = true) as -> by (apply N.ltb_lt; exact L).
      cbn [List.length]. clear IH. induction l as [|z l IH]; cbn [filter List.length]; [lia|].
      destruct (t <? z) eqn:Z.
      + assert ((a <? z) = true) as -> by (apply N.ltb_lt; apply N.ltb_lt in Z; lia). cbn [List.length]. lia.
      + destruct (a <? z); cbn [List.length]; lia.
    - specialize (IH Hin). destruct (t <? y) eqn:Z.
      + assert ((a <? y) = true) as -> by (apply N.ltb_lt; apply N.ltb_lt in Z; lia). cbn [List.length]. lia.
      + destruct (a <? y); cbn [List.length]; lia.
  Qed.

  Definition pick (ch : nat) (s : src) (r : list src) : src := nth (ch mod List.length (s :: r)) (s :: r) s.
  Lemma pick_In ch s r : In (pick ch s r) (s :: r).
  Proof. unfold pick. apply nth_In. apply Nat.mod_upper_bound. discriminate. Qed.
  Opaque pick.

  Definition eager_step (ch : nat) (w0 : world) : option world :=
    let w := normalize w0 in
    if ended w then None else
    match enabled V w with
    | s :: r => Some (task_step E V w (pick ch s r))
    | [] => match next_event w with Some t => Some (set_now w t) | None => None end
    end.

  Fixpoint eager_run (fuel : nat) (ch : nat -> nat) (w : world) : world :=
    match fuel with
    | O => w
    | S n => match eager_step (ch n) w with Some w' => eager_run n ch w' | None => w end
    end.

  (* the eager scheduler only takes transitions of the label semantics *)
  Lemma eager_step_is_step ch w w' : eager_step ch w = Some w' -> exists l, w' = step E V w l.
  Proof.
    unfold eager_step. cbv zeta. destruct (ended (normalize w)) eqn:En; [discriminate|].
    destruct (enabled V (normalize w)) as [|s r] eqn:L.
    - destruct (next_event (normalize w)) as [t|] eqn:NE; [|discriminate]. intro H. injection H as <-.
      exists (LAdvance t). cbn [step]. destruct (next_event_spec _ _ NE) as [I _].
      unfold future in I. apply filter_In in I. destruct I as [_ I]. rewrite I. reflexivity.
    - intro H. injection H as <-. set (s' := pick ch s r).
      assert (In s' (s :: r)) as I by apply pick_In.
      exists (LTask s'). cbn [step]. rewrite L.
      assert (existsb (fun x => match x, s' with
                                | SWait, SWait | STimer, STimer | SUrgent, SUrgent | SHigh, SHigh | SNormal, SNormal => true
                                | _, _ => false end) (s :: r) = true) as ->; [|reflexivity].
      apply existsb_exists. exists s'. split; [exact I | destruct s'; reflexivity].
  Qed.

  Lemma normalize_sk w : sk (normalize w) = sk w /\ cs (normalize w) = cs w /\ kids (normalize w) = kids w.
  Proof.
    unfold normalize. destruct (ended w || (now w <? busy_until w) || parked w); [repeat split|].
    destruct (recv_fresh w); repeat split.
  Qed.

  Lemma sk_cands w w' : sk w' = sk w -> cs w' = cs w -> kids w' = kids w -> cands w' = cands w /\ nu w' = nu w /\ mu w' = mu w /\ (Pre w -> Pre w').
  Proof.
    intros S C K. assert (cands w' = cands w) as CA.
    { unfold cands. rewrite C, K. unfold sk in S. injection S as _ T _ _ _ _ B _. rewrite T, B. reflexivity. }
    destruct (sk_slack _ _ S) as (S1 & S2 & S3 & S4 & S5).
    split; [exact CA|]. split; [unfold nu, future; rewrite CA, S3; reflexivity|].
    split; [unfold mu, rb; rewrite S2, C; reflexivity|].
    intros [A [f B]]. split; [rewrite S4; exact A | exists f; rewrite S5; exact B].
  Qed.

  Lemma stuck_analysis w : Pre w -> enabled V w = [] ->
    now w < busy_until w \/ exists d f r, timer w = Some (d, f, r) /\ now w < d.
  Proof.
    intros [NE [fd HD]]. unfold enabled. rewrite NE. destruct (now w <? busy_until w) eqn:B; [intros _; left; apply N.ltb_lt; exact B|].
    intro H. apply app_eq_nil in H. destruct H as [_ H]. right.
    assert (nonempty (qn w) = true) as QN by (destruct (qn w); [contradiction | reflexivity]).
    destruct (parked w).
    - change (v_biased V) with true in H. cbv iota in H. destruct (recv_parked w) as [|s r] eqn:R; [|discriminate].
      unfold recv_parked, timer_due in R. destruct (timer w) as [[[d f] r]|].
      + destruct (d <=? now w) eqn:L; [discriminate|]. exists d, f, r. split; [reflexivity | apply N.leb_gt; exact L].
      + rewrite QN in R. cbn [app] in R. destruct (nonempty (qu w)); [discriminate|]. destruct (nonempty (qh w)); discriminate.
    - destruct (recv_fresh w) eqn:R; [discriminate|]. unfold recv_fresh, timer_due in R. destruct (timer w) as [[[d f] r]|].
      + destruct (d <=? now w) eqn:L; [discriminate|]. exists d, f, r. split; [reflexivity | apply N.leb_gt; exact L].
      + rewrite QN in R. destruct (nonempty (qu w)); [discriminate|]. destruct (nonempty (qh w)); discriminate.
  Qed.

  Lemma advance_core w :
    (now w < busy_until w \/ exists d f r, timer w = Some (d, f, r) /\ now w < d) ->
    exists t, next_event w = Some t /\ now w < t /\ t + slack (set_now w t) <= now w + slack w /\
              mu (set_now w t) = mu w /\ (nu (set_now w t) < nu w)%nat.
  Proof.
    intros [B | (d & f & r & T & L)].
    - assert (In (busy_until w) (future w)) as I.
      { unfold future. apply filter_In. split; [unfold cands; apply in_or_app; right; left; reflexivity | apply N.ltb_lt; exact B]. }
      destruct (next_event w) as [t|] eqn:NE; [|unfold next_event in NE; destruct (future w); [contradiction | discriminate]].
      destruct (next_event_spec w t NE) as [It Min]. exists t. split; [reflexivity|].
      assert (now w < t) as Lt by (unfold future in It; apply filter_In in It; destruct It as [_ X]; apply N.ltb_lt; exact X).
      specialize (Min _ I). split; [exact Lt|]. split.
      { unfold slack, rem_timer. cbn [now timer busy_until qu qh qn set_now]. destruct (timer w) as [[[d ?] ?]|]; lia. }
      split; [reflexivity|].
      unfold nu, future. cbn [now set_now]. change (cands (set_now w t)) with (cands w).
      apply filter_shrinks; [exact Lt | unfold future in It; apply filter_In in It; destruct It as [X _]; exact X].
    - assert (In d (future w)) as I.
      { unfold future. apply filter_In. split; [unfold cands; rewrite T; left; reflexivity | apply N.ltb_lt; exact L]. }
      destruct (next_event w) as [t|] eqn:NE; [|unfold next_event in NE; destruct (future w); [contradiction | discriminate]].
      destruct (next_event_spec w t NE) as [It Min]. exists t. split; [reflexivity|].
      assert (now w < t) as Lt by (unfold future in It; apply filter_In in It; destruct It as [_ X]; apply N.ltb_lt; exact X).
      specialize (Min _ I). split; [exact Lt|]. split.
      { unfold slack, rem_timer. cbn [now timer busy_until qu qh qn set_now]. rewrite T. lia. }
      split; [reflexivity|].
      unfold nu, future. cbn [now set_now]. change (cands (set_now w t)) with (cands w).
      apply filter_shrinks; [exact Lt | unfold future in It; apply filter_In in It; destruct It as [X _]; exact X].
  Qed.

  Lemma advance_progress w : Pre w -> enabled V w = [] ->
    exists t, next_event w = Some t /\ now w < t /\ t + slack (set_now w t) <= now w + slack w /\
              mu (set_now w t) = mu w /\ (nu (set_now w t) < nu w)%nat /\ Pre (set_now w t).
  Proof.
    intros P En. destruct (advance_core w (stuck_analysis w P En)) as (t & A & B & C & D & F).
    exists t. repeat split; try assumption; apply P.
  Qed.

  Lemma eager_run_ended fuel ch w : ended w = true -> eager_run fuel ch w = w.
  Proof.
    intro H. destruct fuel; [reflexivity|]. cbn [eager_run]. unfold eager_step. cbv zeta.
    destruct (normalize_sk w) as [S _]. destruct (sk_slack _ _ S) as (_ & _ & _ & S4 & _). rewrite S4, H. reflexivity.
  Qed.

  Theorem quit_terminates fuel ch : forall w,
    Pre w -> (4 * mu w + nu w < fuel)%nat ->
    let w' := eager_run fuel ch w in ended w' = true /\ now w' <= now w + slack w.
  Proof.
    induction fuel as [|fuel IH]; intros w P F; [lia|]. cbn [eager_run]. unfold eager_step. cbv zeta.
    destruct (normalize_sk w) as (S & C & K). destruct (sk_cands _ _ S C K) as (_ & NU & MU & PP). specialize (PP P).
    destruct (sk_slack _ _ S) as (SL & _ & NW & EN & _).
    set (wn := normalize w) in *. destruct P as [NE HD]. rewrite EN, NE.
    destruct (enabled V wn) as [|s r] eqn:L.
    - destruct (advance_progress wn PP L) as (t & NX & Lt & PH & M & N' & P').
      rewrite NX. specialize (IH (set_now wn t) P'). cbv zeta in IH.
      destruct IH as [A B]; [lia|]. split; [exact A|]. cbn [now set_now] in B. lia.
    - set (s' := pick (ch fuel) s r).
      assert (In s' (enabled V wn)) as I by (rewrite L; apply pick_In).
      destruct (task_step_progress E wn s' I PP) as (A & B & M & D).
      set (X := task_step E V wn s') in *.
      destruct D as [D|D].
      + rewrite (eager_run_ended _ _ _ D). split; [exact D | lia].
      + pose proof (nu_le X). specialize (IH X D). cbv zeta in IH. destruct IH as [A' B']; [lia|]. split; [exact A' | lia].
  Qed.

  (* the graceful quit of worker.rs: stop_with_signal(sig, grace) then delete, both at normal priority *)
  Definition quit_job (w : world) (sig grace : N) (f1 f2 : flag) : world :=
    send (send w PNormal (CGracefulStop sig grace) f1) PNormal CDelete f2.

  Lemma qcost_app a b : qcost (a ++ b) = qcost a + qcost b.
  Proof. induction a as [|[c f] a IH]; [reflexivity|]. cbn [app]. rewrite !qcost_cons, IH. lia. Qed.

  Theorem graceful_quit_bounded w sig grace f1 f2 ch :
    ended w = false ->
    let q := quit_job w sig grace f1 f2 in
    let w' := eager_run (S (4 * mu q + nu q)) ch q in
    ended w' = true /\ now w' <= now w + (slack w + grace).
  Proof.
    intros NE q w'.
    assert (forall x c f, ended x = false -> send x PNormal c f = out (set_queues x (qu x) (qh x) (qn x ++ [(c, f)])) (OSent PNormal f)) as SN
      by (intros x c f H; unfold send; rewrite H; reflexivity).
    set (w1 := send w PNormal (CGracefulStop sig grace) f1).
    assert (w1 = out (set_queues w (qu w) (qh w) (qn w ++ [(CGracefulStop sig grace, f1)])) (OSent PNormal f1)) as E1 by (apply SN; exact NE).
    assert (ended w1 = false) as NE1 by (rewrite E1; exact NE).
    assert (q = out (set_queues w1 (qu w1) (qh w1) (qn w1 ++ [(CDelete, f2)])) (OSent PNormal f2)) as E2 by (apply SN; exact NE1).
    assert (Pre q /\ slack q = slack w + grace /\ now q = now w) as (P & SL & NW).
    { rewrite E2. split; [split; [exact NE1 | exists f2; cbn [qn out emit set_queues]; apply in_or_app; right; left; reflexivity]|].
      split; [|rewrite E1; reflexivity].
      unfold slack, rem_timer. cbn [now timer busy_until qu qh qn out emit set_queues]. rewrite E1.
      cbn [now timer busy_until qu qh qn out emit set_queues]. rewrite !qcost_app. cbn [qcost fold_right cost fst].
      destruct (timer w) as [[[d ?] ?]|]; lia. }
    destruct (quit_terminates (S (4 * mu q + nu q)) ch q P) as [A B]; [lia|]. split; [exact A|]. fold w' in B. lia.
  Qed.

  (* a job that is already gone takes nothing: both tickets are born resolved *)
  Lemma quit_dead_job w sig grace f1 f2 : ended w = true -> sk (quit_job w sig grace f1 f2) = sk w.
  Proof. intro H. unfold quit_job, send. rewrite H. cbn [ended raise out emit]. rewrite H. reflexivity. Qed.
End Sched.

(* ---- nothing the job started is left once the task has ended *)
Definition dropped (w : world) (c : nat) : bool :=
  existsb (fun to => match snd to with ODrop c' => Nat.eqb c' c | _ => false end) (obs w).
(* spawned, not reaped, and not dropped (the child is killed when its handle is dropped: kill_on_drop) *)
Definition survivors (w : world) : list nat := filter (fun c => negb (dropped w c)) (live w).

Definition EndInv (w : world) : Prop :=
  Inv w /\ (ended w = true -> forall c, cs w = Running c -> dropped w c = true).

Section Survivors.
  Variable E : env.
  Notation V := fixed.

  Lemma end_inv_survivors w : EndInv w -> ended w = true -> survivors w = [].
  Proof.
    intros [I D] En. unfold survivors. rewrite I. destruct (cs w) as [|c|] eqn:C; try reflexivity.
    cbn [expected_live filter]. rewrite (D En c eq_refl). reflexivity.
  Qed.

  Lemma task_step_end_inv w s : Inv w -> ended w = false -> EndInv (task_step E V w s).
  Proof.
    intros I NE. split; [apply task_step_inv; exact I|].
    unfold task_step. set (w' := match s with SWait => _ | _ => _ end). clearbody w'.
    intros En c C.
    assert (forall x, ended (settle_park x) = ended x /\ cs (settle_park x) = cs x /\ obs (settle_park x) = obs x) as SP.
    { intro x. unfold settle_park. destruct (ended x) eqn:Ex; [repeat split; exact Ex|]. destruct (now x <? busy_until x); repeat split; exact Ex. }
    destruct (SP (finish_end w')) as (S1 & S2 & S3). rewrite S1 in En. rewrite S2 in C.
    unfold dropped. rewrite S3. unfold finish_end in *. destruct (ended w') eqn:Ew.
    - destruct (cs w') as [|c'|] eqn:Cw; cbn [cs out emit] in C; try (rewrite Cw in C; discriminate).
      rewrite Cw in C. injection C as ->. cbn [obs out emit existsb snd]. rewrite Nat.eqb_refl. apply orb_true_r.
    - rewrite Ew in En. discriminate.
  Qed.

  Lemma eager_step_end_inv ch w w' : EndInv w -> eager_step E ch w = Some w' -> EndInv w'.
  Proof.
    intros [I D] H. unfold eager_step in H. cbv zeta in H.
    destruct (ended (normalize w)) eqn:En; [discriminate|].
    assert (Inv (normalize w)) as IN by (apply normalize_inv; exact I).
    destruct (enabled V (normalize w)) as [|s r].
    - destruct (next_event (normalize w)); [|discriminate]. injection H as <-. split; [exact IN|].
      cbn [ended set_now]. rewrite En. discriminate.
    - injection H as <-. apply task_step_end_inv; assumption.
  Qed.

  Lemma eager_run_end_inv fuel ch : forall w, EndInv w -> EndInv (eager_run E fuel ch w).
  Proof.
    induction fuel as [|n IH]; intros w I; [exact I|]. cbn [eager_run].
    destruct (eager_step E (ch n) w) as [w'|] eqn:S; [|exact I]. apply IH. eapply eager_step_end_inv; eassumption.
  Qed.

  Lemma send_end_inv w p c f : EndInv w -> EndInv (send w p c f).
  Proof.
    intros [I D]. unfold send. destruct (ended w) eqn:En.
    - split; [apply Inv_raise; exact I|]. intros _ c' C. specialize (D eq_refl c' C). unfold dropped in *. cbn [obs raise out emit existsb snd]. exact D.
    - destruct p; (split; [exact I|]); cbn [ended out emit set_queues]; rewrite En; discriminate.
  Qed.

  (* every reachable world of the job task has the invariant *)
  Lemma step_end_inv w l : EndInv w -> EndInv (step E V w l).
  Proof.
    intros [I D]. unfold step.
    assert (EndInv (normalize w)) as IN.
    { split; [apply normalize_inv; exact I|]. unfold normalize.
      destruct (ended w || (now w <? busy_until w) || parked w); [exact D|]. destruct (recv_fresh w); exact D. }
    destruct l.
    - apply send_end_inv. exact IN.
    - destruct (existsb _ (enabled V (normalize w))) eqn:X; [|exact IN].
      destruct (ended (normalize w)) eqn:En.
      + unfold enabled in X. rewrite En in X. discriminate.
      + apply task_step_end_inv; [exact (proj1 IN) | exact En].
    - destruct (now (normalize w) <? t); [|exact IN]. exact IN.
  Qed.

  Theorem run_end_inv ls : EndInv (run E V ls).
  Proof.
    unfold run. assert (EndInv init) as I0 by (split; [reflexivity | discriminate]).
    revert I0. generalize init. induction ls as [|l r IH]; intros w I; [exact I|]. cbn [fold_left]. apply IH. apply step_end_inv. exact I.
  Qed.

  (* graceful quit of any reachable job: the task ends within the bound and leaves no process *)
  Theorem graceful_quit_clean ls sig grace f1 f2 ch :
    let w := run E V ls in
    ended w = false ->
    let q := quit_job w sig grace f1 f2 in
    let w' := eager_run E (S (4 * mu q + nu q)) ch q in
    ended w' = true /\ now w' <= now w + (slack w + grace) /\ survivors w' = [].
  Proof.
    intros w NE q w'. destruct (graceful_quit_bounded E w sig grace f1 f2 ch NE) as [A B]. fold q in A, B. fold w' in A, B.
    split; [exact A|]. split; [exact B|]. apply end_inv_survivors; [|exact A].
    apply eager_run_end_inv. unfold q, quit_job. apply send_end_inv. apply send_end_inv. apply run_end_inv.
  Qed.

  (* abort: the job task is dropped wherever it is; the child handle it owns is dropped with it *)
  Definition abort_job (w : world) : world :=
    if ended w then w else
    set_ended (match cs w with Running c => out w (ODrop c) | _ => w end).

  Theorem abort_clean w : EndInv w -> let w' := abort_job w in ended w' = true /\ now w' = now w /\ survivors w' = [].
  Proof.
    intros EI. pose proof EI as [I D]. unfold abort_job. destruct (ended w) eqn:En; cbv zeta.
    - split; [exact En|]. split; [reflexivity|]. apply end_inv_survivors; [exact EI | exact En].
    - split; [reflexivity|]. split; [destruct (cs w); reflexivity|].
      unfold survivors, live, Inv, live in *. destruct (cs w) as [|c|] eqn:C.
      + cbn [obs set_ended]. rewrite I. reflexivity.
      + cbn [obs set_ended out emit live_of apply_ob]. rewrite I. cbn [expected_live filter].
        unfold dropped. cbn [obs set_ended out emit existsb snd]. rewrite Nat.eqb_refl. reflexivity.
      + cbn [obs set_ended]. rewrite I. reflexivity.
  Qed.
End Survivors.
