(* Proofs about Fs/Changeable.v (kept apart from the model, which must keep evaluating when one of them breaks) *)
From Coq Require Import List NArith Bool String.
From WX Require Import Gen.Changeable_gen Fs.Changeable.
Import ListNotations.
Open Scope N_scope.

Lemma source_modes : src_call = Some GetThenCall /\ src_clone = Some Share.
Proof. split; reflexivity. Qed.

(* ---- theorems for the modes of the source *)
Notation exec_src := (exec GetThenCall Share).
Notation exec_op_src := (exec_op GetThenCall Share).

(* nothing is ever locked, so nothing ever deadlocks *)
Lemma no_lock_op : forall o s, locked s = [] ->
  match exec_op_src o s with Done s' => locked s' = [] | Deadlock _ => False | BadHandle => True end.
Proof.
  fix IH 1. intros o s L. destruct o as [h f|h h'|h body]; cbn [exec_op].
  - destruct (lookup h (slot_of s)); [|exact I]. rewrite L. cbn [existsb locked]. reflexivity.
  - destruct (lookup h (slot_of s)); [|exact I]. cbn [locked]. exact L.
  - destruct (lookup h (slot_of s)) as [sl|]; [|exact I]. destruct (lookup sl (value s)) as [f|]; [|exact I].
    set (s1 := mkS (slot_of s) (value s) (locked s) ((h, f) :: trace s) (next_slot s)).
    assert (locked s1 = []) as L1 by exact L.
    revert L1. generalize s1. clear s1. induction body as [|o' r IHr]; intros st Lst.
    + cbn [locked]. exact L.
    + pose proof (IH o' st Lst) as H. destruct (exec_op_src o' st) as [st'| |]; [apply IHr; exact H | exact H | exact I].
Qed.

Theorem never_deadlocks : forall l s, locked s = [] -> match exec_src l s with Deadlock _ => False | _ => True end.
Proof.
  induction l as [|o r IH]; intros s L; cbn [exec]; [exact I|].
  pose proof (no_lock_op o s L) as H. destruct (exec_op_src o s) as [s'| |]; [apply IH; exact H | exact H | exact I].
Qed.

(* a call runs the function that was installed when the call started: replacing the handler from within it (even its own slot)
   does not affect the invocation in progress, and the next call runs the replacement *)
Theorem replace_from_within : forall h f0 g s sl,
  lookup h (slot_of s) = Some sl -> lookup sl (value s) = Some f0 -> locked s = [] ->
  exists s', exec_src [Call h [Replace h g]; Call h []] s = Done s' /\
             trace s' = (h, g) :: (h, f0) :: trace s.
Proof.
  intros h f0 g s sl Hs Hv L. cbn [exec exec_op]. rewrite Hs, Hv. cbn [slot_of value locked]. rewrite Hs, L. cbn [existsb].
  cbn [slot_of value trace next_slot locked]. rewrite Hs. cbn [update lookup]. rewrite N.eqb_refl. eexists. split; reflexivity.
Qed.

(* a replacement through one handle is seen by calls through every clone of it, made before or after *)
Theorem clones_share : forall h h' f0 g s sl,
  lookup h (slot_of s) = Some sl -> lookup sl (value s) = Some f0 -> locked s = [] -> h' <> h ->
  exists s', exec_src [Clone h h'; Replace h g; Call h' []] s = Done s' /\ trace s' = (h', g) :: trace s.
Proof.
  intros h h' f0 g s sl Hs Hv L Ne. cbn [exec exec_op]. rewrite Hs. cbn [slot_of value locked update lookup].
  assert (N.eqb h' h = false) as E by (apply N.eqb_neq; exact Ne). rewrite E, Hs, L. cbn [existsb].
  cbn [slot_of value locked trace next_slot update lookup]. rewrite !N.eqb_refl. eexists. split; reflexivity.
Qed.

(* ---- the two variants are refuted by witnesses (seeded changes C13-5 and C15-8) *)
Lemma call_under_lock_refuted :
  match exec CallUnderLock Share [Call 0 [Replace 0 1]; Call 0 []] init with Deadlock _ => True | _ => False end /\
  invocations (exec GetThenCall Share [Call 0 [Replace 0 1]; Call 0 []] init) = [(0, 0); (0, 1)].
Proof. split; vm_compute; [exact I | reflexivity]. Qed.

Lemma snapshot_clone_refuted :
  invocations (exec GetThenCall Snapshot [Clone 0 7; Replace 0 1; Call 7 []] init) = [(7, 0)] /\
  invocations (exec GetThenCall Share [Clone 0 7; Replace 0 1; Call 7 []] init) = [(7, 1)].
Proof. split; vm_compute; reflexivity. Qed.
