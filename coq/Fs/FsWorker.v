(* Model of lib/src/sources/fs.rs::worker (the registration logic) and of config.rs::ConfigWatched.
   `fixed = true` is the code after the two repairs (local path record cleared when the watcher is re-created;
   change counter so that changes made during an apply phase are not missed). *)
From Coq Require Import List NArith Bool Lia.
Import ListNotations.
Open Scope N_scope.

Record wpath : Set := mkWp { wp_id : N; wp_rec : bool }.
Definition wp_eqb (a b : wpath) : bool := (wp_id a =? wp_id b) && Bool.eqb (wp_rec a) (wp_rec b).
Definition memp (p : wpath) (l : list wpath) : bool := existsb (wp_eqb p) l.
(* the watcher's registration is modelled per (path, mode) entry; the worker always unwatches the old entry
   before watching a path with another mode, so this agrees with notify's per-path registration whenever the
   configured list does not name one path with two modes (the generators never do) *)

(* Watcher::Native | Watcher::Poll(interval): two poll watchers with different intervals are different kinds *)
Inductive kind : Set := KNative | KPoll | KPoll2.
Definition kind_eqb (a b : kind) : bool := match a, b with KNative, KNative | KPoll, KPoll | KPoll2, KPoll2 => true | _, _ => false end.

Record cfg : Set := mkCfg { c_paths : list wpath; c_kind : kind }.

Inductive call : Set := CCreate (k : kind) | CDrop | CWatch (p : wpath) (ok : bool) | CUnwatch (p : wpath) (ok : bool).

Record fsw : Set := mkFsw {
  w_kind : kind;                       (* watcher_type *)
  w_watcher : option (list wpath);     (* the live watcher's registered paths *)
  w_local : list wpath;                (* the worker's own record `pathset` *)
  w_calls : list call;                 (* newest first *)
  w_errors : nat }.

Definition fsw0 : fsw := mkFsw KNative None [] [] 0.

Section Oracle.
  Variable fail_watch fail_unwatch : N -> bool.
  Variable fixed : bool.

  Definition do_unwatch (w : fsw) (p : wpath) : fsw :=
    match w_watcher w with
    | None => w
    | Some reg =>
        if negb (fail_unwatch (wp_id p)) && memp p reg then
          mkFsw (w_kind w) (Some (filter (fun q => negb (wp_eqb p q)) reg))
                (filter (fun q => negb (wp_eqb p q)) (w_local w)) (CUnwatch p true :: w_calls w) (w_errors w)
        else mkFsw (w_kind w) (Some reg) (w_local w) (CUnwatch p false :: w_calls w) (S (w_errors w))
    end.

  Definition do_watch (w : fsw) (p : wpath) : fsw :=
    match w_watcher w with
    | None => w
    | Some reg =>
        if fail_watch (wp_id p) then mkFsw (w_kind w) (Some reg) (w_local w) (CWatch p false :: w_calls w) (S (w_errors w))
        else mkFsw (w_kind w) (Some (if memp p reg then reg else reg ++ [p]))
                   (if memp p (w_local w) then w_local w else w_local w ++ [p]) (CWatch p true :: w_calls w) (w_errors w)
    end.

  (* one turn of the worker loop, with the three configuration reads it performs *)
  Definition pass (ps1 : list wpath) (k : kind) (ps2 : list wpath) (w : fsw) : fsw :=
    match ps1 with
    | [] => mkFsw (w_kind w) None [] (match w_watcher w with Some _ => CDrop :: w_calls w | None => w_calls w end) (w_errors w)
    | _ =>
      let w1 :=
        match w_watcher w with
        | Some _ => if kind_eqb (w_kind w) k then w
                    else mkFsw k (Some []) (if fixed then [] else w_local w) (CDrop :: CCreate k :: w_calls w) (w_errors w)
        | None => mkFsw k (Some []) (if fixed then [] else w_local w) (CCreate k :: w_calls w) (w_errors w)
        end in
      let '(to_watch, to_drop) :=
        match w_local w1 with
        | [] => (ps2, [])
        | loc => (filter (fun p => negb (memp p loc)) ps2, filter (fun p => negb (memp p ps2)) loc)
        end in
      fold_left do_watch to_watch (fold_left do_unwatch to_drop w1)
    end.
End Oracle.

(* set equality of the registration with a configured path list *)
Definition reg_of (w : fsw) : list wpath := match w_watcher w with Some r => r | None => [] end.
Definition subset (a b : list wpath) : bool := forallb (fun p => memp p b) a.
Definition set_eq (a b : list wpath) : bool := subset a b && subset b a.
