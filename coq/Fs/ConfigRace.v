(* C13: ConfigWatched::next against concurrent Config::signal_change calls, at the granularity of the individual
   synchronisation operations.  The order of the operations of both functions is TRANSLATED from config.rs
   (Gen/ConfigNext_gen.v); the theorem is about the program made of exactly those operations in that order.
   tokio::sync::Notify: a `Notified` future receives notify_waiters() wake-ups from the moment it is enabled
   (registered); notify_waiters() wakes the registered waiters only and stores no permit. *)
From Coq Require Import List Arith String Bool Lia.
From WX Require Import Gen.ConfigNext_gen.
Import ListNotations.
Open Scope string_scope.

Inductive nop : Set := NSkip | NRegister | NLoad | NAwait | NStore.
Definition nop_of (s : string) : nop :=
  if String.eqb s "register" then NRegister else if String.eqb s "load" then NLoad
  else if String.eqb s "await" then NAwait else if String.eqb s "store" then NStore else NSkip.

Record rs : Set := mkRs {
  pc : nat;            (* position of the worker inside next(); = length of the program: returned, doing its pass *)
  reg : bool;          (* its Notified is registered with the Notify *)
  woken : bool;        (* ... and has been woken *)
  loaded : nat;        (* the counter value it loaded *)
  rseen : nat;         (* self.seen *)
  cnt : nat;           (* the change counter *)
  pend : nat;          (* signal_change calls that have incremented the counter and not yet notified *)
  first : bool }.      (* first_run *)

Definition rs0 : rs := mkRs 0 false false 0 0 0 0 true.

Inductive rlabel : Set := LN | LI | LT | LAgain.

Section Prog.
  Variable prog : list nop.

  Definition step (s : rs) (l : rlabel) : rs :=
    match l with
    | LI => mkRs (pc s) (reg s) (woken s) (loaded s) (rseen s) (S (cnt s)) (S (pend s)) (first s)
    | LT => match pend s with
            | O => s
            | S p => mkRs (pc s) (reg s) (if reg s then true else woken s) (loaded s) (rseen s) (cnt s) p (first s)
            end
    | LAgain => if Nat.eqb (pc s) (List.length prog)
                then mkRs 0 false false (loaded s) (rseen s) (cnt s) (pend s) (first s) else s
    | LN =>
        match nth_error prog (pc s) with
        | None => s
        | Some NSkip => mkRs (S (pc s)) (reg s) (woken s) (loaded s) (rseen s) (cnt s) (pend s) (first s)
        | Some NRegister => mkRs (S (pc s)) true false (loaded s) (rseen s) (cnt s) (pend s) (first s)
        | Some NLoad => mkRs (S (pc s)) (reg s) (woken s) (cnt s) (rseen s) (cnt s) (pend s) (first s)
        | Some NAwait =>
            if first s then mkRs (S (pc s)) (reg s) (woken s) (loaded s) (rseen s) (cnt s) (pend s) false
            else if negb (Nat.eqb (loaded s) (rseen s)) then mkRs (S (pc s)) (reg s) (woken s) (loaded s) (rseen s) (cnt s) (pend s) false
            else if woken s then mkRs (S (pc s)) (reg s) (woken s) (loaded s) (rseen s) (cnt s) (pend s) false
            else s                                     (* blocked *)
        | Some NStore => mkRs (S (pc s)) (reg s) (woken s) (loaded s) (cnt s) (cnt s) (pend s) (first s)
        end
    end.

  Definition run (ls : list rlabel) : rs := fold_left step ls rs0.

  (* the worker sleeps in next() and nothing will wake it *)
  Definition asleep (s : rs) : Prop :=
    nth_error prog (pc s) = Some NAwait /\ first s = false /\ loaded s = rseen s /\ woken s = false /\ pend s = 0.
End Prog.

(* the program as it is in the source *)
Definition prog : list nop := map nop_of next_ops.

Lemma prog_shape : prog = [NSkip; NRegister; NLoad; NAwait; NStore; NLoad].
Proof. reflexivity. Qed.
Lemma signal_shape : signal_ops = ["inc"; "notify"].
Proof. reflexivity. Qed.

Definition RInv (s : rs) : Prop :=
  (pc s = 2 \/ pc s = 3 -> reg s = true) /\
  (pc s = 3 -> cnt s = loaded s \/ pend s > 0 \/ woken s = true).

Lemma step_inv s l : RInv s -> RInv (step prog s l).
Proof.
  intros [A B]. rewrite prog_shape. destruct l; unfold step.
  - (* LN *)
    destruct (pc s) as [|[|[|[|[|[|n]]]]]] eqn:P; cbn [nth_error].
    + split; cbn [pc reg]; [intros [H|H]; discriminate | intro H; discriminate].
    + split; cbn [pc reg cnt loaded pend woken]; [intros _; reflexivity | intro H; discriminate].
    + split; cbn [pc reg cnt loaded pend woken]; [intros _; apply A; left; reflexivity | intros _; left; reflexivity].
    + destruct (first s); [split; cbn [pc]; [intros [H|H]; discriminate | intro H; discriminate]|].
      destruct (negb (Nat.eqb (loaded s) (rseen s))); [split; cbn [pc]; [intros [H|H]; discriminate | intro H; discriminate]|].
      destruct (woken s) eqn:W; [split; cbn [pc]; [intros [H|H]; discriminate | intro H; discriminate]|].
      split; [rewrite P; exact A | rewrite P, W; exact B].
    + split; cbn [pc]; [intros [H|H]; discriminate | intro H; discriminate].
    + split; cbn [pc]; [intros [H|H]; discriminate | intro H; discriminate].
    + destruct n; cbn [nth_error]; (split; [rewrite P; exact A | rewrite P; exact B]).
  - (* LI *) split; cbn [pc reg cnt loaded pend woken]; [exact A | intros _; right; left; lia].
  - (* LT *) destruct (pend s) as [|p] eqn:Pd; [split; [exact A | rewrite Pd; exact B]|].
    split; cbn [pc reg cnt loaded pend woken]; [exact A|]. intro H. right. right. rewrite (A (or_intror H)). reflexivity.
  - (* LAgain *) cbn [List.length]. destruct (Nat.eqb (pc s) 6); [|split; assumption].
    split; cbn [pc]; [intros [H|H]; discriminate | intro H; discriminate].
Qed.

Lemma run_inv ls : RInv (run prog ls).
Proof.
  unfold run. assert (RInv rs0) as I by (split; cbn; [intros [H|H]; discriminate | intro H; discriminate]).
  revert I. generalize rs0. induction ls as [|l r IH]; intros s I; [exact I|]. cbn [fold_left]. apply IH. apply step_inv. exact I.
Qed.

(* no lost change, for every interleaving of the worker's operations with any number of concurrent signal_change
   calls: a worker that sleeps with no notification in flight has seen the latest counter value *)
Theorem no_lost_wakeup ls : asleep prog (run prog ls) -> rseen (run prog ls) = cnt (run prog ls).
Proof.
  pose proof (run_inv ls) as [_ B]. remember (run prog ls) as s eqn:Es. clear Es.
  intros (At & _ & L & W & Pd).
  assert (pc s = 3) as P.
  { assert (prog = [NSkip; NRegister; NLoad; NAwait; NStore; NLoad]) as Sh by exact prog_shape. rewrite Sh in At.
    destruct (pc s) as [|[|[|[|[|[|n]]]]]]; cbn [nth_error] in At; try discriminate; [reflexivity|]. destruct n; discriminate. }
  destruct (B P) as [E|[E|E]]; [rewrite <- L; symmetry; exact E | lia | rewrite W in E; discriminate].
Qed.

(* loading the counter before registering (the natural "optimisation") loses a change *)
Definition racy : list nop := [NLoad; NSkip; NRegister; NAwait; NStore; NLoad].
Lemma racy_order_refuted :
  let s := run racy [LN; LN; LN; LN; LN; LN; LAgain; LN; LI; LT; LN; LN; LN] in
  asleep racy s /\ rseen s <> cnt s.
Proof. vm_compute. repeat split; discriminate. Qed.
