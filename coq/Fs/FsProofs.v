From Coq Require Import List NArith Bool Lia.
From WX Require Import Fs.FsWorker.
Import ListNotations.
Open Scope N_scope.

Lemma wp_eqb_refl p : wp_eqb p p = true.
Proof. unfold wp_eqb. rewrite N.eqb_refl, eqb_reflx. reflexivity. Qed.
Lemma wp_eqb_eq a b : wp_eqb a b = true -> a = b.
Proof.
  unfold wp_eqb. intro H. apply andb_true_iff in H. destruct H as [H1 H2]. apply N.eqb_eq in H1. apply eqb_prop in H2.
  destruct a, b; simpl in *; subst; reflexivity.
Qed.
Lemma memp_In p l : memp p l = true <-> In p l.
Proof.
  unfold memp. rewrite existsb_exists. split.
  - intros (x & Hx & E). apply wp_eqb_eq in E. subst. exact Hx.
  - intro H. exists p. split; [exact H | apply wp_eqb_refl].
Qed.
Lemma memp_false p l : memp p l = false <-> ~ In p l.
Proof.
  rewrite <- memp_In. destruct (memp p l); split; intro H.
  - discriminate.
  - exfalso. apply H. reflexivity.
  - intro X. discriminate.
  - reflexivity.
Qed.

(* worker invariant: the worker's own record is exactly what the live watcher has registered, and
   nothing is recorded without a watcher *)
Definition Inv (w : fsw) : Prop :=
  match w_watcher w with
  | None => w_local w = []
  | Some reg => forall p, In p reg <-> In p (w_local w)
  end.

Section Oracle.
  Variable fail_watch fail_unwatch : N -> bool.

  Lemma do_unwatch_spec w p reg :
    w_watcher w = Some reg -> Inv w ->
    let w' := do_unwatch fail_unwatch w p in
    Inv w' /\ w_kind w' = w_kind w /\
    exists reg', w_watcher w' = Some reg' /\
      forall q, In q reg' <-> In q reg /\ (q <> p \/ fail_unwatch (wp_id p) = true).
  Proof.
    intros W I. unfold Inv in I. rewrite W in I. unfold do_unwatch. rewrite W.
    destruct (fail_unwatch (wp_id p)) eqn:F; cbn [negb andb].
    - split; [unfold Inv; cbn [w_watcher w_local]; exact I|]. split; [reflexivity|].
      exists reg. split; [reflexivity|]. intro q. tauto.
    - destruct (memp p reg) eqn:M.
      + split; [|split; [reflexivity|]].
        * unfold Inv. cbn [w_watcher w_local]. intro q. rewrite !filter_In, I. tauto.
        * eexists. split; [reflexivity|]. intro q. rewrite filter_In. split.
          -- intros [Hq Hn]. split; [exact Hq|]. left. intro E. subst. rewrite wp_eqb_refl in Hn. discriminate.
          -- intros [Hq [Hn|Hn]]; [|discriminate]. split; [exact Hq|]. apply negb_true_iff.
             destruct (wp_eqb p q) eqn:E; [apply wp_eqb_eq in E; subst; contradiction | reflexivity].
      + split; [unfold Inv; cbn [w_watcher w_local]; exact I|]. split; [reflexivity|].
        exists reg. split; [reflexivity|]. intro q. split; [|tauto]. intro Hq. split; [exact Hq|]. left. intro E. subst.
        apply memp_false in M. contradiction.
  Qed.

  Lemma do_watch_spec w p reg :
    w_watcher w = Some reg -> Inv w ->
    let w' := do_watch fail_watch w p in
    Inv w' /\ w_kind w' = w_kind w /\
    exists reg', w_watcher w' = Some reg' /\
      forall q, In q reg' <-> In q reg \/ (q = p /\ fail_watch (wp_id p) = false).
  Proof.
    intros W I. unfold Inv in I. rewrite W in I. unfold do_watch. rewrite W.
    destruct (fail_watch (wp_id p)) eqn:F.
    - split; [unfold Inv; cbn [w_watcher w_local]; exact I|]. split; [reflexivity|].
      exists reg. split; [reflexivity|]. intro q. split; [tauto | intros [H|[_ H]]; [exact H | discriminate]].
    - split; [|split; [reflexivity|]].
      + unfold Inv. cbn [w_watcher w_local]. intro q.
        destruct (memp p reg) eqn:M1; destruct (memp p (w_local w)) eqn:M2; rewrite ?in_app_iff, I; cbn [In];
          rewrite ?memp_In, ?memp_false in *; rewrite ?I in *; try tauto;
          split; intro H; try tauto; destruct H as [H|[H|[]]]; subst; tauto.
      + eexists. split; [reflexivity|]. intro q. destruct (memp p reg) eqn:M; rewrite ?in_app_iff; cbn [In].
        * apply memp_In in M. split; [tauto | intros [H|[-> _]]; assumption].
        * split; [intros [H|[H|[]]]; [left; exact H | right; split; [symmetry; exact H | reflexivity]] | intros [H|[-> _]]; tauto].
  Qed.

  Lemma fold_unwatch_inv l w : Inv w -> w_watcher w <> None -> Inv (fold_left (do_unwatch fail_unwatch) l w) /\ w_watcher (fold_left (do_unwatch fail_unwatch) l w) <> None.
  Proof.
    revert w. induction l as [|p r IH]; intros w I W; simpl; [split; assumption|].
    destruct (w_watcher w) as [reg|] eqn:E; [|contradiction].
    destruct (do_unwatch_spec w p reg E I) as (I1 & _ & reg1 & W1 & _). apply IH; [exact I1 | rewrite W1; discriminate].
  Qed.

  Lemma fold_watch_inv l w : Inv w -> w_watcher w <> None -> Inv (fold_left (do_watch fail_watch) l w) /\ w_watcher (fold_left (do_watch fail_watch) l w) <> None.
  Proof.
    revert w. induction l as [|p r IH]; intros w I W; simpl; [split; assumption|].
    destruct (w_watcher w) as [reg|] eqn:E; [|contradiction].
    destruct (do_watch_spec w p reg E I) as (I1 & _ & reg1 & W1 & _). apply IH; [exact I1 | rewrite W1; discriminate].
  Qed.

  (* every pass of the repaired worker preserves the invariant, whatever the three configuration reads
     returned (they may differ when the configuration is changed concurrently) and whatever fails *)
  Theorem pass_inv ps1 k ps2 w : Inv w -> Inv (pass fail_watch fail_unwatch true ps1 k ps2 w).
  Proof.
    intro I. unfold pass. destruct ps1 as [|x xs]; [unfold Inv; reflexivity|].
    set (w1 := match w_watcher w with
               | Some _ => if kind_eqb (w_kind w) k then w else mkFsw k (Some []) [] (CDrop :: CCreate k :: w_calls w) (w_errors w)
               | None => mkFsw k (Some []) [] (CCreate k :: w_calls w) (w_errors w) end).
    assert (Inv w1 /\ w_watcher w1 <> None) as [I1 W1].
    { unfold w1. destruct (w_watcher w) as [reg|] eqn:E.
      - destruct (kind_eqb (w_kind w) k); [split; [exact I | rewrite E; discriminate]|].
        split; [unfold Inv; cbn; intro p; tauto | cbn; discriminate].
      - split; [unfold Inv; cbn; intro p; tauto | cbn; discriminate]. }
    clearbody w1.
    destruct (w_local w1) as [|l0 ls]; cbv beta iota zeta.
    - change (fold_left (do_unwatch fail_unwatch) [] w1) with w1. apply fold_watch_inv; assumption.
    - destruct (fold_unwatch_inv (filter (fun p => negb (memp p ps2)) (l0 :: ls)) w1 I1 W1) as [I2 W2].
      apply fold_watch_inv; assumption.
  Qed.

  Hypothesis no_unwatch_failure : forall i, fail_unwatch i = false.

  Lemma fold_unwatch_spec l w reg :
    w_watcher w = Some reg -> Inv w ->
    let w' := fold_left (do_unwatch fail_unwatch) l w in
    w_kind w' = w_kind w /\ exists reg', w_watcher w' = Some reg' /\ forall q, In q reg' <-> In q reg /\ ~ In q l.
  Proof.
    revert w reg. induction l as [|p r IH]; intros w reg W I; simpl.
    - split; [reflexivity|]. exists reg. split; [exact W|]. intro q. tauto.
    - destruct (do_unwatch_spec w p reg W I) as (I1 & K1 & reg1 & W1 & R1).
      destruct (IH _ reg1 W1 I1) as (K2 & reg2 & W2 & R2).
      split; [rewrite K2; exact K1|]. exists reg2. split; [exact W2|].
      intro q. rewrite R2, R1, no_unwatch_failure. split.
      + intros [[Hq [Hd|Hd]] Hr]; [|discriminate]. split; [exact Hq|]. intros [E|E]; [subst; contradiction | contradiction].
      + intros [Hq Hn]. split; [split; [exact Hq | left; intro E; subst; apply Hn; left; reflexivity] | intro E; apply Hn; right; exact E].
  Qed.

  Lemma fold_watch_spec l w reg :
    w_watcher w = Some reg -> Inv w ->
    let w' := fold_left (do_watch fail_watch) l w in
    w_kind w' = w_kind w /\ exists reg', w_watcher w' = Some reg' /\
      forall q, In q reg' <-> In q reg \/ (In q l /\ fail_watch (wp_id q) = false).
  Proof.
    revert w reg. induction l as [|p r IH]; intros w reg W I; simpl.
    - split; [reflexivity|]. exists reg. split; [exact W|]. intro q. tauto.
    - destruct (do_watch_spec w p reg W I) as (I1 & K1 & reg1 & W1 & R1).
      destruct (IH _ reg1 W1 I1) as (K2 & reg2 & W2 & R2).
      split; [rewrite K2; exact K1|]. exists reg2. split; [exact W2|].
      intro q. rewrite R2, R1. split.
      + intros [[H|[-> F]]|[H F]]; [left; exact H | right; split; [left; reflexivity | exact F] | right; split; [right; exact H | exact F]].
      + intros [H|[[<-|H] F]]; [left; left; exact H | left; right; split; [reflexivity | exact F] | right; split; assumption].
  Qed.

  (* convergence: one pass over a stable configuration leaves registered exactly the configured paths that
     were already registered or whose registration succeeded, with the configured watcher kind; an empty
     configuration releases the watcher *)
  Theorem pass_converges ps k w :
    Inv w ->
    let w' := pass fail_watch fail_unwatch true ps k ps w in
    (ps = [] -> w_watcher w' = None) /\
    (ps <> [] -> w_kind w' = k /\ exists reg, w_watcher w' = Some reg /\
       forall q, In q reg <-> In q ps /\ (fail_watch (wp_id q) = false \/ (In q (reg_of w) /\ kind_eqb (w_kind w) k = true))).
  Proof.
    intro I. cbn zeta. split; [intros ->; reflexivity|]. intro NE. destruct ps as [|x xs]; [contradiction|]. unfold pass. cbv beta iota.
    set (ps := x :: xs) in *. clear NE.
    set (w1 := match w_watcher w with
               | Some _ => if kind_eqb (w_kind w) k then w else mkFsw k (Some []) [] (CDrop :: CCreate k :: w_calls w) (w_errors w)
               | None => mkFsw k (Some []) [] (CCreate k :: w_calls w) (w_errors w) end).
    assert (Inv w1 /\ w_kind w1 = k /\ exists reg1, w_watcher w1 = Some reg1 /\
            forall q, In q reg1 <-> (In q (reg_of w) /\ kind_eqb (w_kind w) k = true)) as (I1 & K1 & reg1 & W1 & R1).
    { unfold w1, reg_of. destruct (w_watcher w) as [reg|] eqn:E.
      - destruct (kind_eqb (w_kind w) k) eqn:Ek.
        + split; [exact I|]. split; [destruct (w_kind w), k; try discriminate; reflexivity|]. exists reg. split; [exact E|]. intro q. tauto.
        + split; [unfold Inv; cbn; intro p; tauto|]. split; [reflexivity|]. exists []. split; [reflexivity|]. intro q. cbn. split; [tauto | intros [_ H]; discriminate].
      - split; [unfold Inv; cbn; intro p; tauto|]. split; [reflexivity|]. exists []. split; [reflexivity|]. intro q. cbn. tauto. }
    clearbody w1.
    assert (forall p, In p reg1 <-> In p (w_local w1)) as L1 by (unfold Inv in I1; rewrite W1 in I1; exact I1).
    destruct (w_local w1) as [|l0 ls] eqn:El; cbv beta iota zeta.
    - change (fold_left (do_unwatch fail_unwatch) [] w1) with w1. destruct (fold_watch_spec ps w1 reg1 W1 I1) as (K2 & reg2 & W2 & R2).
      split; [rewrite K2; exact K1|]. exists reg2. split; [exact W2|]. intro q. rewrite R2. split.
      + intros [H|[H F]]; [apply L1 in H; contradiction | split; [exact H | left; exact F]].
      + intros [H [F|[Hr Hk]]]; [right; split; assumption|]. exfalso. assert (In q reg1) as X by (apply R1; split; assumption). apply L1 in X. exact X.
    - set (loc := l0 :: ls) in *.
      destruct (fold_unwatch_spec (filter (fun p => negb (memp p ps)) loc) w1 reg1 W1 I1) as (K2 & reg2 & W2 & R2).
      destruct (fold_unwatch_inv (filter (fun p => negb (memp p ps)) loc) w1 I1) as [I2 _]; [rewrite W1; discriminate|].
      destruct (fold_watch_spec (filter (fun p => negb (memp p loc)) ps) _ reg2 W2 I2) as (K3 & reg3 & W3 & R3).
      split; [rewrite K3, K2; exact K1|]. exists reg3. split; [exact W3|]. intro q. rewrite R3, R2, !filter_In. cbv beta. split.
      + intros [[Hq Hn]|[[Hq Hm] F]].
        * assert (In q ps) as Hp.
          { destruct (memp q ps) eqn:M; [apply memp_In; exact M|]. exfalso. apply Hn. split; [apply L1; exact Hq | rewrite ?M; reflexivity]. }
          split; [exact Hp|]. right. apply R1. exact Hq.
        * split; [exact Hq | left; exact F].
      + intros [Hp [F|Hr]].
        * destruct (memp q loc) eqn:M.
          -- left. split; [apply L1, memp_In; exact M|]. intros [_ Hn]. apply negb_true_iff in Hn. apply memp_false in Hn. contradiction.
          -- right. split; [split; [exact Hp | rewrite ?M; reflexivity] | exact F].
        * left. split; [apply R1; exact Hr|]. intros [_ Hn]. apply negb_true_iff in Hn. apply memp_false in Hn. contradiction.
  Qed.
End Oracle.

(* the defect that was repaired: without clearing the record when the watcher is re-created for another kind,
   the new watcher registers nothing *)
Lemma kind_change_refuted :
  let ps := [mkWp 1 true; mkWp 2 true] in
  let w := pass (fun _ => false) (fun _ => false) false ps KNative ps fsw0 in
  reg_of (pass (fun _ => false) (fun _ => false) false ps KPoll ps w) = [] /\
  set_eq (reg_of (pass (fun _ => false) (fun _ => false) true ps KPoll ps w)) ps = true.
Proof. vm_compute. split; reflexivity. Qed.
