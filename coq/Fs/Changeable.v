(* Model of lib/src/changeable.rs: Changeable / ChangeableFn -- a shared slot holding the current handler.
   Handles name slots; a clone of a handle shares its slot (or, in the refuted variant, gets a snapshot of it).  A call reads
   the slot's value when it starts and runs that function; the function may itself replace handlers (of its own slot too) and
   call others.  In the refuted variant the slot stays read-locked while the function runs, so a replacement of the same slot
   from within the call can never take the write lock.
   The two modes are TRANSLATED from the source on every run (Gen/Changeable_gen.v). *)
From Coq Require Import List NArith Bool String.
From WX Require Import Gen.Changeable_gen.
Import ListNotations.
Open Scope N_scope.

Inductive call_mode : Set := GetThenCall | CallUnderLock.
Inductive clone_mode : Set := Share | Snapshot.

Definition call_mode_of (s : string) : option call_mode :=
  if String.eqb s "get_then_call" then Some GetThenCall else if String.eqb s "call_under_lock" then Some CallUnderLock else None.
Definition clone_mode_of (s : string) : option clone_mode :=
  if String.eqb s "share" then Some Share else if String.eqb s "snapshot" then Some Snapshot else None.

(* a script: what the program and the handlers do.  Functions are named by a number (their "generation"). *)
Inductive op : Set :=
| Replace (h : N) (f : N)                 (* handle h: install function f *)
| Clone (h h' : N)                        (* h' := clone of h *)
| Call (h : N) (body : list op).          (* call through h; body = what the called function does while it runs *)

Record state : Set := mkS {
  slot_of : list (N * N);                 (* handle -> slot *)
  value : list (N * N);                   (* slot -> installed function *)
  locked : list N;                        (* slots read-locked by calls in progress (CallUnderLock only) *)
  trace : list (N * N);                   (* invocations so far, newest first: (handle, function that ran) *)
  next_slot : N }.

Fixpoint lookup (k : N) (l : list (N * N)) : option N :=
  match l with [] => None | (a, b) :: r => if N.eqb a k then Some b else lookup k r end.
Definition update (k v : N) (l : list (N * N)) : list (N * N) := (k, v) :: l.

Inductive outcome : Set := Done (s : state) | Deadlock (s : state) | BadHandle.

Section Exec.
  Variable cm : call_mode.
  Variable km : clone_mode.

  (* fuel: nesting depth of the script is structural, the fixpoint is on the op list with an inner fixpoint on bodies *)
  Fixpoint exec_op (o : op) (s : state) {struct o} : outcome :=
    match o with
    | Replace h f =>
        match lookup h (slot_of s) with
        | None => BadHandle
        | Some sl => if existsb (N.eqb sl) (locked s) then Deadlock s      (* the write lock is never granted *)
                     else Done (mkS (slot_of s) (update sl f (value s)) (locked s) (trace s) (next_slot s))
        end
    | Clone h h' =>
        match lookup h (slot_of s) with
        | None => BadHandle
        | Some sl =>
            match km with
            | Share => Done (mkS (update h' sl (slot_of s)) (value s) (locked s) (trace s) (next_slot s))
            | Snapshot =>
                match lookup sl (value s) with
                | None => BadHandle
                | Some f => Done (mkS (update h' (next_slot s) (slot_of s)) (update (next_slot s) f (value s)) (locked s) (trace s) (next_slot s + 1))
                end
            end
        end
    | Call h body =>
        match lookup h (slot_of s) with
        | None => BadHandle
        | Some sl =>
            match lookup sl (value s) with
            | None => BadHandle
            | Some f =>
                let s1 := mkS (slot_of s) (value s) (match cm with CallUnderLock => sl :: locked s | GetThenCall => locked s end)
                              ((h, f) :: trace s) (next_slot s) in
                let fix exec_body (l : list op) (st : state) : outcome :=
                  match l with
                  | [] => Done st
                  | o' :: r => match exec_op o' st with Done st' => exec_body r st' | x => x end
                  end in
                match exec_body body s1 with
                | Done s2 => Done (mkS (slot_of s2) (value s2) (locked s) (trace s2) (next_slot s2))    (* the guard, if any, is released *)
                | x => x
                end
            end
        end
    end.

  Fixpoint exec (l : list op) (s : state) : outcome :=
    match l with
    | [] => Done s
    | o :: r => match exec_op o s with Done s' => exec r s' | x => x end
    end.
End Exec.

(* one handle 0 on slot 0 holding function 0 *)
Definition init : state := mkS [(0, 0)] [(0, 0)] [] [] 1.

Definition invocations (o : outcome) : list (N * N) := match o with Done s | Deadlock s => rev (trace s) | BadHandle => [] end.

(* ---- the modes the source is translated to *)
Definition src_call : option call_mode := call_mode_of changeable_call_mode.
Definition src_clone : option clone_mode := clone_mode_of changeable_clone_mode.

