(* Model of lib/src/changeable.rs: Changeable / ChangeableFn -- a shared slot holding the current handler.
   Handles name slots; a clone of a handle shares its slot (or, in the refuted variant, gets a snapshot of it).  A call reads
   the slot's value when it starts and runs that function; the function may itself replace handlers (of its own slot too) and
   call others.  In the refuted variant the slot stays read-locked while the function runs, so a replacement of the same slot
   from within the call can never take the write lock.
   The two modes are TRANSLATED from the source on every run (Gen/Changeable_gen.v). *)
From Coq Require Import List NArith Bool String.
From WX Require Import Gen.Changeable_gen.
Import ListNotations.
Open Scope N_scope.

Inductive call_mode : Set := GetThenCall | CallUnderLock.
Inductive clone_mode : Set := Share | Snapshot.

Definition call_mode_of (s : string) : option call_mode :=
  if String.eqb s "get_then_call" then Some GetThenCall else if String.eqb s "call_under_lock" then Some CallUnderLock else None.
Definition clone_mode_of (s : string) : option clone_mode :=
  if String.eqb s "share" then Some Share else if String.eqb s "snapshot" then Some Snapshot else None.

(* a script: what the program and the handlers do.  Functions are named by a number (their "generation"). *)
Inductive op : Set :=
| Replace (h : N) (f : N)                 (* handle h: install function f *)
| Clone (h h' : N)                        (* h' := clone of h *)
| Call (h : N) (body : list op).          (* call through h; body = what the called function does while it runs *)

Record state : Set := mkS {
  slot_of : list (N * N);                 (* handle -> slot *)
  value : list (N * N);                   (* slot -> installed function *)
  locked : list N;                        (* slots read-locked by calls in progress (CallUnderLock only) *)
  trace : list (N * N);                   (* invocations so far, newest first: (handle, function that ran) *)
  next_slot : N }.

Fixpoint lookup (k : N) (l : list (N * N)) : option N :=
  match l with [] => None | (a, b) :: r => if N.eqb a k then Some b else lookup k r end.
Definition update (k v : N) (l : list (N * N)) : list (N * N) := (k, v) :: l.

Inductive outcome : Set := Done (s : state) | Deadlock (s : state) | BadHandle.

Section Exec.
  Variable cm : call_mode.
  Variable km : clone_mode.

  (* fuel: nesting depth of the script is structural, the fixpoint is on the op list with an inner fixpoint on bodies *)
  Fixpoint exec_op (o : op) (s : state) {struct o} : outcome :=
    match o with
    | Replace h f =>
        match lookup h (slot_of s) with
        | None => BadHandle
        | Some sl => if existsb (N.eqb sl) (locked s) then Deadlock s      (* the write lock is never granted *)
                     else Done (mkS (slot_of s) (update sl f (value s)) (locked s) (trace s) (next_slot s))
        end
    | Clone h h' =>
        match lookup h (slot_of s) with
        | None => BadHandle
        | Some sl =>
            match km with
            | Share => Done (mkS (update h' sl (slot_of s)) (value s) (locked s) (trace s) (next_slot s))
            | Snapshot =>
                match lookup sl (value s) with
                | None => BadHandle
                | Some f => Done (mkS (update h' (next_slot s) (slot_of s)) (update (next_slot s) f (value s)) (locked s) (trace s) (next_slot s + 1))
                end
            end
        end
    | Call h body =>
        match lookup h (slot_of s) with
        | None => BadHandle
        | Some sl =>
            match lookup sl (value s) with
            | None => BadHandle
            | Some f =>
                let s1 := mkS (slot_of s) (value s) (match cm with CallUnderLock => sl :: locked s | GetThenCall => locked s end)
                              ((h, f) :: trace s) (next_slot s) in
                let fix exec_body (l : list op) (st : state) : outcome :=
                  match l with
                  | [] => Done st
                  | o' :: r => match exec_op o' st with Done st' => exec_body r st' | x => x end
                  end in
                match exec_body body s1 with
                | Done s2 => Done (mkS (slot_of s2) (value s2) (locked s) (trace s2) (next_slot s2))    (* the guard, if any, is released *)
                | x => x
                end
            end
        end
    end.

  Fixpoint exec (l : list op) (s : state) : outcome :=
    match l with
    | [] => Done s
    | o :: r => match exec_op o s with Done s' => exec r s' | x => x end
    end.
End Exec.

(* one handle 0 on slot 0 holding function 0 *)
Definition init : state := mkS [(0, 0)] [(0, 0)] [] [] 1.

Definition invocations (o : outcome) : list (N * N) := match o with Done s | Deadlock s => rev (trace s) | BadHandle => [] end.

(* ---- the modes the source is translated to *)
Definition src_call : option call_mode := call_mode_of changeable_call_mode.
Definition src_clone : option clone_mode := clone_mode_of changeable_clone_mode.

Lemma source_modes : src_call = Some GetThenCall /\ src_clone = Some Share.
Proof. split; reflexivity. Qed.

(* ---- theorems for the modes of the source *)
Notation exec_src := (exec GetThenCall Share).
Notation exec_op_src := (exec_op GetThenCall Share).

(* nothing is ever locked, so nothing ever deadlocks *)
Lemma no_lock_op : forall o s, locked s = [] ->
  match exec_op_src o s with Done s' => locked s' = [] | Deadlock _ => False | BadHandle => True end.
Proof.
  fix IH 1. intros o s L. destruct o as [h f|h h'|h body]; cbn [exec_op].
  - destruct (lookup h (slot_of s)); [|exact I]. rewrite L. cbn [existsb locked]. reflexivity.
  - destruct (lookup h (slot_of s)); [|exact I]. cbn [locked]. exact L.
  - destruct (lookup h (slot_of s)) as [sl|]; [|exact I]. destruct (lookup sl (value s)) as [f|]; [|exact I].
    set (s1 := mkS (slot_of s) (value s) (locked s) ((h, f) :: trace s) (next_slot s)).
    assert (locked s1 = []) as L1 by exact L.
    revert L1. generalize s1. clear s1. induction body as [|o' r IHr]; intros st Lst.
    + cbn [locked]. exact L.
    + pose proof (IH o' st Lst) as H. destruct (exec_op_src o' st) as [st'| |]; [apply IHr; exact H | exact H | exact I].
Qed.

Theorem never_deadlocks : forall l s, locked s = [] -> match exec_src l s with Deadlock _ => False | _ => True end.
Proof.
  induction l as [|o r IH]; intros s L; cbn [exec]; [exact I|].
  pose proof (no_lock_op o s L) as H. destruct (exec_op_src o s) as [s'| |]; [apply IH; exact H | exact H | exact I].
Qed.

(* a call runs the function that was installed when the call started: replacing the handler from within it (even its own slot)
   does not affect the invocation in progress, and the next call runs the replacement *)
Theorem replace_from_within : forall h f0 g s sl,
  lookup h (slot_of s) = Some sl -> lookup sl (value s) = Some f0 -> locked s = [] ->
  exists s', exec_src [Call h [Replace h g]; Call h []] s = Done s' /\
             trace s' = (h, g) :: (h, f0) :: trace s.
Proof.
  intros h f0 g s sl Hs Hv L. cbn [exec exec_op]. rewrite Hs, Hv. cbn [slot_of value locked]. rewrite Hs, L. cbn [existsb].
  cbn [slot_of value trace next_slot locked]. rewrite Hs. cbn [update lookup]. rewrite N.eqb_refl. eexists. split; reflexivity.
Qed.

(* a replacement through one handle is seen by calls through every clone of it, made before or after *)
Theorem clones_share : forall h h' f0 g s sl,
  lookup h (slot_of s) = Some sl -> lookup sl (value s) = Some f0 -> locked s = [] -> h' <> h ->
  exists s', exec_src [Clone h h'; Replace h g; Call h' []] s = Done s' /\ trace s' = (h', g) :: trace s.
Proof.
  intros h h' f0 g s sl Hs Hv L Ne. cbn [exec exec_op]. rewrite Hs. cbn [slot_of value locked update lookup].
  assert (N.eqb h' h = false) as E by (apply N.eqb_neq; exact Ne). rewrite E, Hs, L. cbn [existsb].
  cbn [slot_of value locked trace next_slot update lookup]. rewrite !N.eqb_refl. eexists. split; reflexivity.
Qed.

(* ---- the two variants are refuted by witnesses (seeded changes C13-5 and C15-8) *)
Lemma call_under_lock_refuted :
  match exec CallUnderLock Share [Call 0 [Replace 0 1]; Call 0 []] init with Deadlock _ => True | _ => False end /\
  invocations (exec GetThenCall Share [Call 0 [Replace 0 1]; Call 0 []] init) = [(0, 0); (0, 1)].
Proof. split; vm_compute; [exact I | reflexivity]. Qed.

Lemma snapshot_clone_refuted :
  invocations (exec GetThenCall Snapshot [Clone 0 7; Replace 0 1; Call 7 []] init) = [(7, 0)] /\
  invocations (exec GetThenCall Share [Clone 0 7; Replace 0 1; Call 7 []] init) = [(7, 1)].
Proof. split; vm_compute; reflexivity. Qed.
