(* Model of config.rs::ConfigWatched (how a worker learns about configuration changes).
   Config::signal_change increments the change counter and calls notify_waiters, which wakes only a worker
   that is blocked in next() at that moment.  `fixed = true`: next() compares the counter with the last value
   seen before blocking (the repair); `fixed = false`: it always blocks (the pinned code). *)
From Coq Require Import List Arith Bool Lia.
Import ListNotations.

Inductive wmode : Set := Busy | Waiting.
Record cw : Set := mkCw { gen : nat; seen : nat; mode : wmode; passes : nat }.
Definition cw0 : cw := mkCw 0 0 Busy 1.          (* first_run: the worker starts with one pass *)

Inductive clabel : Set := Change | Next.

Definition cstep (fixed : bool) (s : cw) (l : clabel) : cw :=
  match l with
  | Change =>
      match mode s with
      | Waiting => mkCw (S (gen s)) (S (gen s)) Busy (S (passes s))     (* woken: a new pass starts, it reads the new config *)
      | Busy => mkCw (S (gen s)) (seen s) Busy (passes s)               (* the notification finds no waiter *)
      end
  | Next =>
      match mode s with
      | Waiting => s
      | Busy => if fixed && negb (Nat.eqb (gen s) (seen s)) then mkCw (gen s) (gen s) Busy (S (passes s))
                else mkCw (gen s) (seen s) Waiting (passes s)
      end
  end.

Definition crun (fixed : bool) (ls : list clabel) : cw := fold_left (cstep fixed) ls cw0.

(* repaired: a worker that is blocked waiting has started a pass after the latest change *)
Theorem waiting_is_up_to_date ls : mode (crun true ls) = Waiting -> seen (crun true ls) = gen (crun true ls).
Proof.
  unfold crun. assert (forall s, (mode s = Waiting -> seen s = gen s) -> mode (fold_left (cstep true) ls s) = Waiting ->
                         seen (fold_left (cstep true) ls s) = gen (fold_left (cstep true) ls s)) as G.
  { induction ls as [|l r IH]; intros s H; simpl; [exact H|]. apply IH.
    destruct l; unfold cstep; destruct (mode s) eqn:M.
    - cbn [mode]. discriminate.
    - cbn [mode]. discriminate.
    - cbn [andb]. destruct (Nat.eqb (gen s) (seen s)) eqn:E; cbn [negb mode seen gen]; [|discriminate].
      intros _. apply Nat.eqb_eq in E. symmetry. exact E.
    - rewrite M. exact H. }
  apply G. discriminate.
Qed.

(* pinned: a change made while the worker was busy is never acted upon *)
Lemma lost_change_refuted :
  let s := crun false [Change; Next] in mode s = Waiting /\ seen s <> gen s.
Proof. vm_compute. split; [reflexivity | discriminate]. Qed.
