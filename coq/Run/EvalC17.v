From Coq Require Import List NArith String Ascii Bool.
From WX Require Import Base.Show Base.Bytes Base.BytesProofs Gen.FsKinds_gen Gen.PathCats_gen Codec.Paths.
Import ListNotations.
Open Scope string_scope.

Definition mk_batch (b : list (list (string * bool) * list EventKind)) : list pev :=
  map (fun e => mkPev (map (fun pd => (parse_path (fst pd), snd pd)) (fst e)) (snd e)) b.

Definition eval_summary (b : list (list (string * bool) * list EventKind)) : string :=
  show_list (fun kv => fst kv ++ "=" ++ snd kv) (summarise (mk_batch b)).
Definition eval_simple (b : list (list (string * bool) * list EventKind)) : string :=
  show_list (fun x => x) (simple_format (mk_batch b)).
