From Coq Require Import List NArith ZArith String Ascii Bool.
From WX Require Import Base.Show Base.Bytes Gen.Signals_gen Codec.Signals.
Import ListNotations.
Open Scope string_scope.

Definition show_sig_full (s : signal) : string :=
  show_signal s ++ " d=" ++ display s ++ " n=" ++ show_option show_Z (to_nix s).

(* FromStr on an arbitrary string *)
Definition eval_parse (s : string) : string :=
  match from_str s with Some x => "Ok:" ++ show_sig_full x | None => "Err" end.

(* everything the harness reports about the number n *)
Definition eval_num (n : Z) : string :=
  "try=" ++ show_option (fun x => x) (nix_try_from n) ++
  " from=" ++ show_sig_full (from_i32 n) ++
  " custom=" ++ show_sig_full (Custom n) ++
  " reparse=" ++ eval_parse (display (Custom n)).

Definition eval_first : string :=
  show_list (fun t => show_sig_full (First t) ++ " serde=" ++ serde_name t ++ " reparse=" ++ eval_parse (display (First t)))
            all_sigtags.

Definition eval_wait (w : N) : string :=
  match process_end_of w with
  | None => "unreachable"
  | Some p => show_pe p ++ " into=" ++
      match into_wait p with
      | None => "unimplemented"
      | Some w' => show_N w' ++ " back=" ++ match process_end_of w' with Some p' => show_pe p' | None => "unreachable" end
      end
  end.

Definition eval_map (v : string) : string :=
  match parse_map_signal v with
  | MapErr => "Err"
  | MapOk f t => "Ok:" ++ show_signal f ++ "->" ++ show_option show_signal t
  end.
