From Coq Require Import List NArith String Ascii Bool.
From WX Require Import Base.Show Base.Bytes Gen.Origins_gen Codec.Origins.
Import ListNotations.
Open Scope string_scope.

Fixpoint list_str_eqb (a b : list string) : bool :=
  match a, b with
  | [], [] => true
  | x :: a', y :: b' => String.eqb x y && list_str_eqb a' b'
  | _, _ => false
  end.

(* file system given as association list from reversed component list (absolute paths) *)
Definition fs_of (m : list (list string * listing)) (q : path) : listing :=
  match find (fun e => list_str_eqb (fst e) (snd q)) m with
  | Some e => if fst q then snd e else []
  | None => []
  end.

Definition nt (n : N) : ntype := match n with 0%N => FileT | 1%N => DirT | _ => OtherT end.

(* observation: depths (number of components) of the origins found from `start` (start first), then
   the sorted type names of each listing in tl *)
Definition conv (l : list (string * N)) : listing := map (fun x => (fst x, nt (snd x))) l.

Definition eval_case (start : list string) (m : list (list string * list (string * N)))
           (tl : list (list (string * N))) : string :=
  let m' := map (fun e => (fst e, conv (snd e))) m in
  let os := origins (fs_of m') (true, start) in
  "O" ++ show_list (fun q : path => show_nat (List.length (snd q))) os ++
  " T" ++ show_list (fun l => show_list (fun x => x) (sort_str (map ptype_name (types (conv l))))) tl.

Definition eval_class : string :=
  show_list (fun t => ptype_name t ++ ":" ++ show_bool (is_vcs t) ++ show_bool (is_soft t)) all_ptypes.

(* ---- monitors evaluated on observations of the implementation ---- *)

(* classification: every reported (name, is_vcs, is_soft) row is exclusive *)
Definition mon_class (rows : list (string * bool * bool)) : string :=
  show_list (fun x => x)
    (flat_map (fun r => match r with (n, v, s) => if xorb v s then [] else [n] end) rows).

(* types reported for a listing = types the documented table gives *)
Definition doc_types (l : listing) : list string :=
  sort_str (map ptype_name (nodup_pt
    (flat_map (fun m => match m with (k, n, t) => if has k l n then [t] else [] end) doc_type_markers))).
Fixpoint list_eqb (a b : list string) : bool :=
  match a, b with
  | [], [] => true
  | x :: a', y :: b' => String.eqb x y && list_eqb a' b'
  | _, _ => false
  end.
Definition mon_types (l : list (string * N)) (reported : list string) : string :=
  show_bool (list_eqb (doc_types (conv l)) (sort_str reported)).

(* origins reported = chain members (given start-first with their listings) that carry a marker;
   a directory with a documented type marker must be reported *)
Definition mon_origins (ch : list (nat * list (string * N))) (reported : list nat) : string :=
  let want := map fst (filter (fun e => check_list (conv (snd e))) ch) in
  let typed := map fst (filter (fun e => match doc_types (conv (snd e)) with [] => false | _ => true end) ch) in
  show_bool (list_eqb (map show_nat want) (map show_nat reported)
             && forallb (fun d => existsb (Nat.eqb d) reported) typed).
