From Coq Require Import List NArith String Ascii Bool.
From WX Require Import Base.Show Base.Bytes Cli.Argv.
Import ListNotations.
Open Scope string_scope.

Definition eval_argv (p : program) : string := show_list show_hex (to_argv p).
Definition eval_interp (no_shell : bool) (shell_opt env_shell : option string) (w : N) (prog : list string) : string :=
  show_interp (interpret no_shell shell_opt env_shell
                 (match w with 0%N => WrapGroup | 1%N => WrapSession | _ => WrapNone end) prog).
Definition eval_wrappers (g s r : bool) : string :=
  show_list (fun w => match w with KillOnDrop => "kod" | ProcessSession => "session"
                                 | ProcessGroupLeader => "group" | ResetSigmask => "sigmask" end)
            (wrappers (mkOpts g s r)).
