(* Exploration of the job model along a history of API calls: all outcomes that the nondeterministic
   choices (select! ties) allow, under maximal progress (the task runs whenever it can; time advances
   only when it cannot), which is how the paused-clock runtime of the harness behaves. *)
From Coq Require Import List NArith ZArith String Ascii Bool.
From WX Require Import Base.Show Base.Bytes Base.BytesProofs Gen.Signals_gen Codec.Signals Job.JobModel.
Import ListNotations.
Open Scope string_scope.

Section Explore.
  Variable E : env.
  Variable V : variant.

  Fixpoint settle (fuel : nat) (ws : list world) : list world :=
    match fuel with
    | O => ws
    | S f =>
        flat_map (fun w0 => let w := normalize w0 in
                            match enabled V w with
                            | [] => [w]
                            | ss => settle f (map (task_step E V w) ss)
                            end) ws
    end.

  Definition minopt (a b : option N) : option N :=
    match a, b with
    | Some x, Some y => Some (N.min x y)
    | Some x, None => Some x
    | None, y => y
    end.
  Definition later (w : world) (t : option N) : option N :=
    match t with Some x => if N.ltb (now w) x then Some x else None | None => None end.

  Definition next_event (w : world) : option N :=
    if ended w then None else
    minopt (later w (match timer w with Some (d, _, _) => Some d | None => None end))
      (minopt (later w (match cs w with
                        | Running c => match nth_error (kids w) c with Some k => c_exit_at k | None => None end
                        | _ => None end))
              (later w (Some (busy_until w)))).

  (* advance to time T handling the events (timer expiry, child exit, end of an AsyncFunc) on the way;
     incl = also those exactly at T *)
  Fixpoint advance_to (incl : bool) (fuel : nat) (T : N) (w : world) : list world :=
    let stop := [if N.ltb (now w) T then set_now w T else w] in
    match fuel with
    | O => stop
    | S f =>
        match next_event w with
        | Some t => if (if incl then N.leb t T else N.ltb t T)
                    then flat_map (advance_to incl f T) (settle 40 [set_now w t])
                    else stop
        | None => stop
        end
    end.

  (* one API call: time to advance to, the controls it enqueues, and whether the caller then yields *)
  Definition hop := (N * list (prio * ctrl * flag) * bool)%type.

  Definition do_op (ws : list world) (o : hop) : list world :=
    match o with (at_, sends, yld) =>
      (* the caller sleeps until at_: if that is in the future the task first runs to quiescence *)
      (* events exactly at at_ may be seen by the task before or after the caller's send *)
      (* (only when something is due exactly at at_ are there two cases; otherwise the two explorations coincide and
         doubling the worlds at every call would make long histories exponential) *)
      let ws1 := flat_map (fun w => if N.ltb (now w) at_
                                    then flat_map (fun w' =>
                                           flat_map (fun w1 => match enabled V (normalize w1) with
                                                               | [] => [w1]
                                                               | _ => w1 :: settle 40 [w1]
                                                               end) (advance_to false 60 at_ w')) (settle 40 [w])
                                    else [w]) ws in
      (* (PHigh, CDelete) stands for "the last Job handle is dropped": a task that starts a fresh recv drains the urgent and the
         high lane with try_recv before it notices the closed channel (Delete at the end of the high lane); a task parked in
         recv's biased select notices it as soon as the urgent lane is empty (Delete at the end of the urgent lane) *)
      let send1 (ws : list world) (s : prio * ctrl * flag) : list world :=
        match s with
        | (PHigh, CDelete, f) => flat_map (fun w => [send w PHigh CDelete f; send w PUrgent CDelete f]) ws
        | (p, c, f) => map (fun w => send w p c f) ws
        end in
      let ws2 := flat_map (fun w => fold_left send1 sends [normalize w]) ws1 in
      if yld then settle 40 ws2 else ws2
    end.

  Definition run_history (ops : list hop) (tail : N) : list world :=
    let ws := fold_left do_op ops [init] in
    flat_map (fun w => advance_to true 80 (now w + tail) w) (settle 40 ws).
End Explore.

Definition show_cs (c : cstate) : string :=
  match c with
  | Pending => "P"
  | Running _ => "R"
  | Finished st => "F:" ++ match process_end_of st with Some p => show_pe p | None => "?" end
  end.
Definition show_prev (p : option cstate) : string := match p with Some c => show_cs c | None => "-" end.

Definition show_ob (o : ob) : option string :=
  match o with
  | OHook a h c p => Some ("hook(" ++ show_N h ++ "," ++ show_cs c ++ "," ++ show_prev p ++ ")")
  | OSpawn c => Some ("spawn(" ++ show_nat c ++ ")")
  | OSpawnFail a => Some ("spawnfail(" ++ show_nat a ++ ")")
  | OSignal c s => Some ("signal(" ++ show_nat c ++ "," ++ show_N s ++ ")")
  | OSignalFail c s => Some ("sigfail(" ++ show_nat c ++ "," ++ show_N s ++ ")")
  | OKill c => Some ("kill(" ++ show_nat c ++ ")")
  | OKillFail c => Some ("killfail(" ++ show_nat c ++ ")")
  | OReap c st => Some ("reap(" ++ show_nat c ++ "," ++ show_N st ++ ")")
  | OMark m c p => Some ("mark(" ++ show_N m ++ "," ++ show_cs c ++ "," ++ show_prev p ++ ")")
  | OErr => Some "err"
  | ODrop c => Some ("drop(" ++ show_nat c ++ ")")
  | ORaise _ => None
  | OGone => None
  | OSent _ _ => None
  | OTake _ _ => None
  end.

Fixpoint raise_time (f : flag) (l : list (N * ob)) : option N :=
  match l with
  | [] => None
  | (t, ORaise g) :: r => match raise_time f r with Some x => Some x | None => if Nat.eqb f g then Some t else None end
  | _ :: r => raise_time f r
  end.

(* canonical rendering of one outcome: the task's event log in order, then for the listed ticket flags
   the time at which each was raised (- if never), then whether the task ended *)
Fixpoint gone_time (l : list (N * ob)) : option N :=
  match l with [] => None | (t, OGone) :: _ => Some t | _ :: r => gone_time r end.

Definition show_world (tickets : list flag) (w : world) : string :=
  sep_by " " (flat_map (fun to => match show_ob (snd to) with Some s => [show_N (fst to) ++ ":" ++ s] | None => [] end) (rev (obs w)))
  ++ " | " ++ sep_by "," (map (fun f => match raise_time f (obs w) with
                                        | Some t => show_N t
                                        | None => match gone_time (obs w) with Some t => show_N t | None => "-" end end) tickets)
  ++ " | " ++ (if ended w then "ended" else "alive").

Definition eval_history (E : env) (V : variant) (ops : list (hop)) (tail : N) (tickets : list flag) : string :=
  show_list (fun x => x) (sort_dedup (map (show_world tickets) (run_history E V ops tail))).

(* environments from finite tables *)
Definition nth_or_last {A} (d : A) (l : list A) (n : nat) : A :=
  match nth_error l n with Some x => x | None => last l d end.
Definition mk_env (children : list (option N * list (N * option N) * option N * bool))
           (spawn_fail signal_fail kill_fail : list nat) : env :=
  mkEnv (fun c => match nth_or_last (None, [], None, false) children c with (se, _, _, _) => se end)
        (fun c sig => match nth_or_last (None, [], None, false) children c with
                      | (_, rs, dflt, ign) =>
                          if N.eqb sig 9 then RDie 0 else          (* SIGKILL cannot be caught or ignored *)
                          if ign then RIgnore else
                          match find (fun r => N.eqb (fst r) sig) rs with
                          | Some (_, Some d) => RDie d
                          | Some (_, None) => RIgnore
                          | None => match dflt with Some d => RDie d | None => RIgnore end
                          end
                      end)
        (fun n => negb (existsb (Nat.eqb n) spawn_fail))
        (fun n => negb (existsb (Nat.eqb n) signal_fail))
        (fun n => negb (existsb (Nat.eqb n) kill_fail)).
