From Coq Require Import List NArith String Ascii Bool.
From WX Require Import Base.Show Gen.CliOnBusy_gen Cli.OnBusy Cli.OnBusyTable.
Import ListNotations.
Open Scope string_scope.

Definition show_act (a : act) : string :=
  match a with
  | AChange => "chg" | AStart => "start" | ASignal s => "sig" ++ show_N s | AStopStart s => "stop" ++ show_N s ++ "+start" | AExit => "exit"
  | ABad => "BAD"
  end.
Definition mode_of (n : N) : mode := match n with 0%N => MDoNothing | 1%N => MQueue | 2%N => MRestart | _ => MSignal end.
(* events: 0 = change batch, 1 = the running command exits, 2 = change batch whose calls are processed after the command ended *)
Definition eval_onbusy (m : N) (restart : bool) (sig stop : option N) (postpone : bool) (es : list N) : string :=
  let o := mkO (mode_of m) restart sig stop postpone in
  show_list show_act (rev (log (OnBusy.run T o (map (fun b : N => match b with 0%N => Change false | 1%N => Exit | _ => Change true end) es)))).
