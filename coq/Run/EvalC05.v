From Coq Require Import List NArith String Ascii Bool.
From WX Require Import Base.Show Cli.OnBusy.
Import ListNotations.
Open Scope string_scope.

Definition show_act (a : act) : string :=
  match a with
  | AChange => "chg" | AStart => "start" | ASignal s => "sig" ++ show_N s | AStopStart s => "stop" ++ show_N s ++ "+start" | AExit => "exit"
  end.
Definition mode_of (n : N) : mode := match n with 0%N => MDoNothing | 1%N => MQueue | 2%N => MRestart | _ => MSignal end.
(* events: true = change batch, false = the running command exits *)
Definition eval_onbusy (m : N) (restart : bool) (sig stop : option N) (postpone : bool) (es : list bool) : string :=
  let o := mkO (mode_of m) restart sig stop postpone in
  show_list show_act (rev (log (run o (map (fun b : bool => if b then Change else Exit) es)))).
