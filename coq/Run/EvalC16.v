From Coq Require Import List NArith ZArith String Ascii Bool.
From WX Require Import Base.Show Base.Bytes Codec.Json Gen.Signals_gen Codec.Signals
  Gen.FsKinds_gen Gen.EventNames_gen Codec.EventsJson.
Import ListNotations.
Open Scope string_scope.

Definition eval_encode (e : event) : string := render (event_to_json e).
Definition eval_decode (j : json) : string :=
  match json_to_event j with Some e => render (event_to_json e) | None => "ERR" end.
Definition eval_kinds : string :=
  show_list (fun k => debug_EventKind k ++ "=" ++ render (tag_to_json (TFek k))) all_EventKind.
(* lookup of a kind by its Debug rendering, for case files *)
Definition fek (s : string) : tag := TFek (kind_of_full s).
