From Coq Require Import List NArith String Ascii Bool.
From WX Require Import Base.Show Base.Bytes Glob.Glob Glob.Gitignore Ignore.IgnoreFilter Globset.Globset
  Gen.FsKinds_gen Gen.CliFilter_gen Globset.CliLayer.
Import ListNotations.
Open Scope string_scope.

Definition eval_globset (origin : string) (filters ignores : list (string * option string)) (whitelist : list string)
           (files : list ifile) (exts : list string) (events : list (list (string * bool))) : string :=
  let f := gsf_new origin filters ignores whitelist files exts in
  show_list (fun ev => show_bool (gs_check_event gm_glob f ev) ++ show_bool (spec_formula gm_glob f ev)) events.

Definition eval_cli (allowed : list FsEvent) (kinds : list EventKind) (inner : bool) : string :=
  show_bool (cli_check allowed kinds inner).
