From Coq Require Import List NArith String Ascii Bool.
From WX Require Import Base.Show Base.Bytes Base.BytesProofs Glob.Glob Glob.Gitignore Ignore.IgnoreFilter Gen.Origins_gen Discover.Discover.
Import ListNotations.
Open Scope string_scope.

Definition kind_of (n : N) : fkind :=
  match n with 0%N => KDir | 1%N => KFile true | 2%N => KFile false | _ => KOther end.

Fixpoint lookup_lines (m : list (string * list string)) (p : string) : list string :=
  match m with [] => [] | (q, l) :: r => if String.eqb p q then l else lookup_lines r p end.

(* result as a byte-sorted list of "path|applies_in|applies_to" *)
Definition eval_discover_v (hard defer orig rev_order : bool) (fs : list (string * N)) (contents : list (string * list string))
           (origin : string) (watches explicit : list string) (excludes : option string) : string :=
  let fs' := map (fun e => (fst e, kind_of (snd e))) fs in
  let fs'' := if rev_order then rev fs' else fs' in
  show_list (fun x => x)
    (sort_dedup (map show_dfile (from_origin gm_glob (lookup_lines contents) hard defer orig fs'' origin watches explicit excludes))).

(* the repaired code *)
Definition eval_discover := eval_discover_v true true true.

(* ---- closure check on a result list (the implementation's): with the filter those files make, every directory reachable from
   the origin through directories that are not VCS metadata directories, are related to the watches and are not ignored by the
   returned files above them has all its ignore files in the list, and no walk file of the list lies outside those directories *)
Fixpoint chain (fuel : nat) (origin d : string) : list string :=
  match fuel with
  | O => []
  | S f => if String.eqb d origin then []
           else d :: match path_parent d with Some q => chain f origin q | None => [] end
  end.

Definition res_file := (string * option string * list string)%type.    (* path, applies_in, lines *)

Definition eval_closed (fs : list (string * N)) (origin : string) (watches : list string) (res : list res_file) : string :=
  let fs' := map (fun e => (fst e, kind_of (snd e))) fs in
  let filt_excl (p : string) :=
    filter_new origin (map (fun r => (snd (fst r), snd r))
                           (filter (fun r => match snd (fst r) with Some a => negb (String.eqb a p) | None => true end) res)) in
  let ok_dir (p : string) := negb (vcs_dir p) && watch_related watches p && check_dir gm_glob true (filt_excl p) p in
  let is_dir (p : string) := match fs_get fs' p with Some KDir => true | _ => false end in
  let open_dir (d : string) := is_under origin d && forallb (fun a => is_dir a && ok_dir a) (chain (S (String.length d)) origin d)
                               && is_dir origin && watch_related watches origin in
  let listed (p : string) (d : string) := existsb (fun r => String.eqb (fst (fst r)) p &&
                                             match snd (fst r) with Some a => String.eqb a d | None => false end) res in
  let missing := flat_map (fun e => match snd e with
                                    | KDir => if open_dir (fst e)
                                              then flat_map (fun nt => let p := join (fst e) (fst nt) in
                                                                       if find_file fs' p && negb (listed p (fst e)) then ["missing:" ++ p] else [])
                                                            dir_files
                                              else []
                                    | _ => [] end) fs' in
  let extra := flat_map (fun r => match snd (fst r) with
                                  | Some d => if existsb (fun nt => String.eqb (fst (fst r)) (join d (fst nt))) dir_files && negb (open_dir d)
                                              then ["pruned:" ++ fst (fst r)] else []
                                  | None => [] end) res in
  let origin_missing := flat_map (fun nt => let p := join origin (fst nt) in
                                           if find_file fs' p && negb (listed p origin) then ["missing:" ++ p] else []) origin_files in
  show_list (fun x => x) (missing ++ origin_missing ++ extra).
