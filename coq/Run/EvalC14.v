From Coq Require Import List NArith String Ascii Bool.
From WX Require Import Base.Show Base.Bytes Base.BytesProofs Glob.Glob Glob.Gitignore Ignore.IgnoreFilter Gen.Origins_gen Discover.Discover.
Import ListNotations.
Open Scope string_scope.

Definition kind_of (n : N) : fkind :=
  match n with 0%N => KDir | 1%N => KFile true | 2%N => KFile false | _ => KOther end.

Fixpoint lookup_lines (m : list (string * list string)) (p : string) : list string :=
  match m with [] => [] | (q, l) :: r => if String.eqb p q then l else lookup_lines r p end.

(* result as a byte-sorted list of "path|applies_in|applies_to" *)
Definition eval_discover_v (hard rev_order : bool) (fs : list (string * N)) (contents : list (string * list string))
           (origin : string) (watches explicit : list string) (excludes : option string) : string :=
  let fs' := map (fun e => (fst e, kind_of (snd e))) fs in
  let fs'' := if rev_order then rev fs' else fs' in
  show_list (fun x => x)
    (sort_dedup (map show_dfile (from_origin gm_glob (lookup_lines contents) hard fs'' origin watches explicit excludes))).

(* the repaired code *)
Definition eval_discover := eval_discover_v true.
