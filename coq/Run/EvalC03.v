From Coq Require Import List NArith String Ascii Bool.
From WX Require Import Base.Show Base.Bytes Glob.Glob Glob.Gitignore Ignore.IgnoreFilter.
Import ListNotations.
Open Scope string_scope.

Definition build (mode : N) (origin : string) (files globs : list ifile) : ifilter :=
  let f0 := match mode with 2%N => filter_empty origin | _ => filter_init origin end in
  fold_left add_file globs (fold_left add_file files f0).

(* which = 0: model of the code (guard as given); which = 1: the git-style reference walk *)
Definition mp (spec guard : bool) (f : ifilter) (p : string) (d : bool) : gmatch :=
  if spec then spec_match gm_glob f p d else match_path gm_glob guard f p d.

Definition verdict_dir (m : gmatch) (p : string) : bool :=
  match m with MNone => true | MIgnore g => negb (in_scope g p) | MWhite _ => true end.

Fixpoint ev_paths (spec guard : bool) (f : ifilter) (ps : list (string * bool)) (pass : bool) : bool :=
  match ps with
  | [] => pass
  | (p, d) :: r =>
      ev_paths spec guard f r (match mp spec guard f p d with
                               | MNone => pass
                               | MIgnore g => if in_scope g p then false else pass
                               | MWhite _ => true end)
  end.

Definition eval_filter (spec guard : bool) (mode : N) (origin : string) (files globs : list ifile)
           (probes : list (string * bool)) : string :=
  let f := build mode origin files globs in
  show_list (fun pd => show_gmatch (mp spec guard f (fst pd) (snd pd)) ++ "|" ++
                       show_bool (verdict_dir (mp spec guard f (fst pd) true) (fst pd)) ++ "|" ++
                       show_bool (ev_paths spec guard f [pd] true)) probes ++
  " multi=" ++ show_bool (ev_paths spec guard f probes true).

(* glob layer alone: used to validate the glob model against globset through a single-node filter *)
Definition eval_glob (pat cand : string) : string := show_bool (gm_glob pat cand).
