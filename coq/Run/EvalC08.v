From Coq Require Import List NArith String Ascii Bool.
From WX Require Import Base.Show Job.JobModel Job.JobQuit Worker.Quit Run.EvalJob.
Import ListNotations.
Open Scope string_scope.

(* the bound of C08_graceful_job_bounded evaluated at the instant of the quit, over every outcome of the history so
   far; and a run of the eager scheduler from each of them (first enabled branch) as a sanity check of the theorem *)
Definition eval_quit_bound (E : env) (ops : list hop) (at_ sig grace : N) : string :=
  let ws := do_op E fixed (fold_left (do_op E fixed) ops [init]) (at_, [], false) in
  let bs := map (fun w => if ended w then now w else (now w + slack w + grace)%N) ws in
  let ok := forallb (fun w => if ended w then true else
                              let q := quit_job w sig grace 0%nat 1%nat in
                              let w' := eager_run E (S (4 * mu q + nu q)) (fun _ => 0%nat) q in
                              ended w' && (now w' <=? now w + slack w + grace)%N) ws in
  show_N (fold_left N.max bs 0%N) ++ ";" ++ (if ok then "T" else "F").

(* one job of a worker-level scenario: state after its own history, then the quit *)
Definition eval_quit_job (E : env) (ops : list hop) (at_ : N) (graceful : bool) (sig grace : N) (strag : bool) : string :=
  let ws := do_op E fixed (fold_left (do_op E fixed) ops [init]) (at_, [], false) in
  let m := if graceful then Graceful sig grace else Abort in
  let rs := map (fun w => let j := mkJ E w (fun _ => 0%nat) in (now w + job_bound m j, quit_one m j)%N) ws in
  "end=" ++ show_N (fold_left N.max (map (fun r => now (snd r)) rs) 0%N) ++
  ";bound=" ++ show_N (fold_left N.max (map fst rs) 0%N) ++
  ";ended=" ++ (if forallb (fun r => ended (snd r)) rs then "T" else "F") ++
  ";leaders=" ++ (if forallb (fun r => match survivors (snd r) with [] => true | _ => false end) rs then "0" else "1") ++
  ";group=" ++ (if forallb (fun r => match group_survivors (fun _ => strag) (snd r) with [] => true | _ => false end) rs then "0"
                else if forallb (fun r => match group_survivors (fun _ => strag) (snd r) with [] => false | _ => true end) rs then "1" else "?").

(* the CLI's decision *)
Definition eval_cli_quit (signals mapped : list N) (sq eof : bool) (nquits : nat) (ss : option N) (st : N) : string :=
  if cli_wants_quit signals mapped sq eof then
    match cli_quit_manner nquits ss st with
    | Abort => "abort"
    | Graceful s g => "graceful(" ++ show_N s ++ "," ++ show_N g ++ ")"
    end
  else "no".

(* C07 liveness: the instant by which every control queued by the history must have been executed *)
Definition eval_drain_bound (E : env) (ops : list hop) : string :=
  let ws := fold_left (do_op E fixed) ops [init] in
  show_N (fold_left N.max (map (fun w => (now w + slack w)%N) ws) 0%N).
