From Coq Require Import List NArith String Ascii Bool.
From WX Require Import Base.Show Fs.FsWorker.
Import ListNotations.
Open Scope string_scope.

Definition show_wp (p : wpath) : string := show_N (wp_id p) ++ (if wp_rec p then ":r" else ":n").
Definition show_kind (k : kind) : string := match k with KNative => "native" | KPoll => "poll" | KPoll2 => "poll2" end.
Definition show_call (c : call) : string :=
  match c with
  | CCreate k => "create(" ++ show_kind k ++ ")"
  | CDrop => "drop"
  | CWatch p ok => "watch(" ++ show_wp p ++ (if ok then ")" else ")!")
  | CUnwatch p ok => "unwatch(" ++ show_wp p ++ (if ok then ")" else ")!")
  end.

Definition mkp (x : N * bool) : wpath := mkWp (fst x) (snd x).

(* a change is (new path list option, new kind option); each is followed by one pass (the worker is idle
   between changes) *)
Fixpoint run_changes (fw fu : list N) (c : cfg) (w : fsw) (chs : list (option (list (N * bool)) * option N)) : cfg * fsw :=
  match chs with
  | [] => (c, w)
  | (ps, k) :: r =>
      let c' := mkCfg (match ps with Some l => map mkp l | None => c_paths c end)
                      (match k with Some 1%N => KPoll | Some 2%N => KPoll2 | Some _ => KNative | None => c_kind c end) in
      let w' := pass (fun i => existsb (N.eqb i) fw) (fun i => existsb (N.eqb i) fu) true (c_paths c') (c_kind c') (c_paths c') w in
      run_changes fw fu c' w' r
  end.

Definition eval_fs (fw fu : list N) (chs : list (option (list (N * bool)) * option N)) : string :=
  let '(c, w) := run_changes fw fu (mkCfg [] KNative) fsw0 chs in
  show_list show_call (rev (w_calls w)) ++ " | " ++
  (match w_watcher w with Some reg => show_kind (w_kind w) ++ show_list show_wp reg | None => "none" end) ++
  " | errors=" ++ show_nat (w_errors w).

(* ---- Changeable: run a script in the modes translated from the source and show the invocations *)
From WX Require Import Gen.Changeable_gen Fs.Changeable.
Definition eval_changeable (l : list op) : string :=
  match src_call, src_clone with
  | Some cm, Some km =>
      let o := exec cm km l init in
      (match o with Done _ => "done" | Deadlock _ => "deadlock" | BadHandle => "badhandle" end) ++ " " ++
      show_list (fun hf => show_N (fst hf) ++ ":" ++ show_N (snd hf)) (invocations o)
  | _, _ => "untranslated"
  end.

(* the same script under the modes the property needs (function obtained before it is called, clones share the slot) *)
Definition eval_changeable_spec (l : list op) : string :=
  let o := exec GetThenCall Share l init in
  (match o with Done _ => "done" | Deadlock _ => "deadlock" | BadHandle => "badhandle" end) ++ " " ++
  show_list (fun hf => show_N (fst hf) ++ ":" ++ show_N (snd hf)) (invocations o).
