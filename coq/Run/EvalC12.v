From Coq Require Import List NArith String Ascii Bool.
From WX Require Import Base.Show Gen.Origins_gen Gen.CliFlags_gen Cli.IgnoreSources.
Import ListNotations.
Open Scope string_scope.

Definition show_src (f : src) : string :=
  show_N (s_id f) ++ (match s_in f with AGlobal => "g" | AOrigin => "o" | AElsewhere => "e" end) ++
  (match s_to f with Some t => ptype_name t | None => "-" end).

(* bits: 1 no_vcs, 2 no_project, 4 no_global, 8 no_default, 16 no_discover, 32 ignore_nothing *)
Definition flags_of (n : N) : flags :=
  mkFlags (N.testbit n 0) (N.testbit n 1) (N.testbit n 2) (N.testbit n 3) (N.testbit n 4) (N.testbit n 5).

Definition mk (l : list (N * N * option ptype)) : list src :=
  map (fun x => match x with (i, a, t) => mkSrc i (match a with 0%N => AGlobal | 1%N => AOrigin | _ => AElsewhere end) t end) l.

Definition eval_select (fixed : bool) (n : N) (vcs : list ptype) (proj glob : list (N * N * option ptype)) (expl : list N) : string :=
  show_list show_src (selected fixed (flags_of n) vcs (mk proj) (mk glob) expl) ++
  " D=" ++ show_bool (use_default_ignores (flags_of n)).
