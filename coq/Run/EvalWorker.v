From Coq Require Import List NArith String Ascii Bool.
From WX Require Import Base.Show Worker.Throttle Worker.ThrottleRt Worker.ErrorHook.
Import ListNotations.
Open Scope string_scope.

Definition mkev (id : N) (urgent empty : bool) (v : N) : ev :=
  mkEv id urgent empty (match v with 0%N => Pass | 1%N => Reject | _ => FErr end).

Definition show_batch (b : batch) : string :=
  show_N (b_first b) ++ "/" ++ show_N (b_deliver b) ++ "/" ++ show_bool (b_urgent b) ++ "/" ++ show_list show_N (b_ids b).

(* input: (receive time, throttle, id, urgent, empty, verdict) in microseconds *)
Definition eval_collect (l : list (N * N * (N * bool * bool * N))) (th_end : N) : string :=
  let l' := map (fun x => match x with (R, th, (i, u, e, v)) => (R, th, mkev i u e v) end) l in
  sep_by ";" (map show_batch (collect l' th_end)) ++ " E" ++ show_list show_N (filter_errors l').

(* run-time machine: an item is (false, R, (id, urgent, empty, verdict)) for an event or (true, T, (v, _, _, _)) for a change *)
Definition eval_rt (init : N) (l : list (bool * N * (N * bool * bool * N))) : string :=
  let l' := map (fun x => match x with (isset, t, (i, u, e, v)) => if (isset : bool) then ISet t i else IEv t (mkev i u e v) end) l in
  sep_by ";" (map show_batch (rt_collect init l')) ++ " E" ++ show_list show_N (rt_errors init l').

Definition beh_of (tbl : list (N * N)) (i : N) : hbeh :=
  match find (fun x => N.eqb (fst x) i) tbl with
  | Some (_, 1%N) => HElevate
  | Some (_, 2%N) => HCritical i
  | Some (_, 3%N) => HCriticalKeepRef i
  | _ => HIgnore
  end.

Definition eval_hook (tbl : list (N * N)) (errs : list N) : string :=
  let (h, r) := error_hook (beh_of tbl) (map RErr errs) in
  show_list show_N h ++ " " ++
  match main_of r with
  | MainRunning => "running"
  | MainOk => "ok"
  | MainErr CExit => "exit"
  | MainErr (CElevated i) => "elevated:" ++ show_N i
  | MainErr (COther c) => "critical:" ++ show_N c
  end.
